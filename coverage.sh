#!/bin/bash
# Reach measurement (not a check): statement coverage of fastgo's Go code under a slice of every
# property's quick workload at every acceleration level. Writes evidence/coverage_summary.txt.
cd "$(dirname "$0")" || exit 2
export GOFLAGS=-mod=mod GOPROXY=off GOSUMDB=off GOTOOLCHAIN=local
set -e
mkdir -p bin
( cd sim && go build -cover -coverpkg=github.com/intel/fastgo/... -tags verif -o ../bin/fgsim-cover ./cmd/fgsim )
COV=$(mktemp -d)
trap 'rm -rf "$COV"' EXIT
NSH=${COVER_SHARDS:-24}
for p in $(./bin/fgsim-cover list); do
  for l in 0 1 3 4; do
    ( GOCOVERDIR=$COV FASTGO_VERIF_ARCHLEVEL=$l ./bin/fgsim-cover worker $p quick 1 $((l % NSH)) $NSH 0 > /dev/null 2>&1 || true ) &
  done
  wait
done
go tool covdata textfmt -i=$COV -o $COV/cov.txt
{
 echo "statement coverage of github.com/intel/fastgo (Go code; assembly is not instrumented) under 1/$NSH of every quick batch at levels 0,1,3,4"
 go tool covdata percent -i=$COV | grep intel/fastgo
 echo
 echo "functions below 100%:"
 ( cd sim && go tool cover -func=$COV/cov.txt ) | grep intel/fastgo | grep -v "100.0%" | sed 's#github.com/intel/fastgo/##'
} > evidence/coverage_summary.txt
cat evidence/coverage_summary.txt | head -80
