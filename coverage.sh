#!/bin/bash
# Reach measurement (not a check): statement coverage of fastgo's Go code under a slice of every
# property's quick workload at every acceleration level. Writes evidence/coverage_summary.txt.
cd "$(dirname "$0")" || exit 2
export GOFLAGS=-mod=mod GOPROXY=off GOSUMDB=off GOTOOLCHAIN=local
set -e
mkdir -p bin
( cd sim && go build -cover -coverpkg=github.com/intel/fastgo/...,fgverif/cmd/fgsim -tags verif -o ../bin/fgsim-cover ./cmd/fgsim )
COV=$(mktemp -d)
trap 'rm -rf "$COV"' EXIT
NSH=${COVER_SHARDS:-24}
for p in $(./bin/fgsim-cover list); do
  for l in 0 1 3 4; do
    ( GOCOVERDIR=$COV FASTGO_VERIF_ARCHLEVEL=$l ./bin/fgsim-cover worker $p quick 1 $((l % NSH)) $NSH 0 > /dev/null 2>&1 || true ) &
  done
  wait
done
go tool covdata textfmt -i=$COV -o $COV/cov.txt
{
 echo "statement coverage of github.com/intel/fastgo (Go code; assembly is not instrumented) under 1/$NSH of every quick batch at levels 0,1,3,4"
 go tool covdata percent -i=$COV | grep intel/fastgo
 echo
 echo "functions below 100%:"
 ( cd sim && go tool cover -func=$COV/cov.txt ) | grep intel/fastgo | grep -v "100.0%" | sed 's#github.com/intel/fastgo/##'
 echo
 echo "uncovered blocks (file:startline.col,endline.col statements):"
 awk 'NR>1 {split($0,a," "); k=a[1]; c[k]+=a[3]; n[k]=a[2]} END {for (k in c) if (c[k]==0 && k ~ /intel\/fastgo/ && k !~ /_verif.go|moffat.go|token.go/) print k, n[k]}' $COV/cov.txt | sed 's#github.com/intel/fastgo/##' | sort -t: -k1,1 -k2,2n
} > evidence/coverage_summary.txt
cat evidence/coverage_summary.txt | head -80
