// Package kern is the simulation kernel: one PRNG, a logical event clock, an
// event log whose running hash is the determinism witness, simulated sinks and
// sources (the only I/O fastgo ever sees) and a baton-passing task scheduler.
package kern

import (
	"errors"
	"fmt"
	"io"
	"runtime"
)

// ---------------------------------------------------------------- PRNG

type Rng struct{ s [4]uint64 }

func splitmix(x *uint64) uint64 {
	*x += 0x9e3779b97f4a7c15
	z := *x
	z = (z ^ (z >> 30)) * 0xbf58476d1ce4e5b9
	z = (z ^ (z >> 27)) * 0x94d049bb133111eb
	return z ^ (z >> 31)
}

func NewRng(seed uint64) *Rng {
	r := &Rng{}
	x := seed
	for i := range r.s {
		r.s[i] = splitmix(&x)
	}
	return r
}

// Mix derives a run seed from the batch seed, a label and an index.
func Mix(seed uint64, label string, idx uint64) uint64 {
	x := seed ^ 0x6a09e667f3bcc909
	for _, c := range []byte(label) {
		x = (x ^ uint64(c)) * 0x100000001b3
	}
	x ^= idx * 0x9e3779b97f4a7c15
	return splitmix(&x)
}

func rotl(x uint64, k uint) uint64 { return (x << k) | (x >> (64 - k)) }

func (r *Rng) Uint64() uint64 {
	res := rotl(r.s[1]*5, 7) * 9
	t := r.s[1] << 17
	r.s[2] ^= r.s[0]
	r.s[3] ^= r.s[1]
	r.s[1] ^= r.s[2]
	r.s[0] ^= r.s[3]
	r.s[2] ^= t
	r.s[3] = rotl(r.s[3], 45)
	return res
}

func (r *Rng) Intn(n int) int {
	if n <= 0 {
		panic("Intn: n <= 0")
	}
	return int(r.Uint64() % uint64(n))
}

func (r *Rng) Bool() bool           { return r.Uint64()&1 == 1 }
func (r *Rng) Pct(p int) bool       { return r.Intn(100) < p }
func (r *Rng) Range(lo, hi int) int { return lo + r.Intn(hi-lo+1) }

// Pick returns one of the given ints.
func (r *Rng) Pick(v ...int) int { return v[r.Intn(len(v))] }

// Weighted returns an index drawn with the given weights.
func (r *Rng) Weighted(w ...int) int {
	t := 0
	for _, x := range w {
		t += x
	}
	k := r.Intn(t)
	for i, x := range w {
		if k < x {
			return i
		}
		k -= x
	}
	return len(w) - 1
}

func (r *Rng) Bytes(n int) []byte {
	b := make([]byte, n)
	i := 0
	for ; i+8 <= n; i += 8 {
		v := r.Uint64()
		b[i], b[i+1], b[i+2], b[i+3], b[i+4], b[i+5], b[i+6], b[i+7] = byte(v), byte(v>>8), byte(v>>16), byte(v>>24), byte(v>>32), byte(v>>40), byte(v>>48), byte(v>>56)
	}
	if i < n {
		v := r.Uint64()
		for ; i < n; i++ {
			b[i] = byte(v)
			v >>= 8
		}
	}
	return b
}

// ---------------------------------------------------------------- event log

type Log struct {
	Seq   uint64 // logical clock: number of events
	Hash  uint64 // running FNV-1a over all events
	Sig   uint64 // running hash over the coarse (schedule-signature) view
	Keep  bool
	Lines []string
}

func NewLog(keep bool) *Log {
	return &Log{Hash: 0xcbf29ce484222325, Sig: 0xcbf29ce484222325, Keep: keep}
}

func fnv(h uint64, v uint64) uint64 {
	for i := 0; i < 8; i++ {
		h ^= v & 0xff
		h *= 0x100000001b3
		v >>= 8
	}
	return h
}

func HashBytes(b []byte) uint64 {
	h := uint64(0xcbf29ce484222325)
	for _, c := range b {
		h ^= uint64(c)
		h *= 0x100000001b3
	}
	return h
}

func bucket(n int) uint64 {
	switch {
	case n <= 0:
		return 0
	case n == 1:
		return 1
	case n < 8:
		return 2
	case n < 64:
		return 3
	case n < 512:
		return 4
	case n < 4096:
		return 5
	case n < 65536:
		return 6
	}
	return 7
}

// Event kinds.
const (
	EvOp = iota + 1
	EvSinkWrite
	EvSourceRead
	EvSwitch
	EvBlock
	EvRelease
	EvCheck
	EvFault
)

// Ev records one event. task/kind/a/b go into the exact hash; the signature
// hash sees task, kind, size bucket of a, and b (fault / error code).
func (l *Log) Ev(task, kind int, a, b int, text string) {
	l.Seq++
	l.Hash = fnv(fnv(fnv(fnv(l.Hash, uint64(task)), uint64(kind)), uint64(a)), uint64(b))
	l.Sig = fnv(fnv(fnv(fnv(l.Sig, uint64(task)), uint64(kind)), bucket(a)), uint64(b))
	if l.Keep {
		l.Lines = append(l.Lines, fmt.Sprintf("%d t%d k%d a=%d b=%d %s", l.Seq, task, kind, a, b, text))
	}
}

// ---------------------------------------------------------------- scheduler

type taskState int

const (
	tsRunnable taskState = iota
	tsBlocked
	tsDone
)

type Task struct {
	ID     int
	Name   string
	sim    *Sim
	resume chan bool // true = continue, false = die
	state  taskState
	cond   func() bool
	Panic  interface{}
	Stack  string
	Steps  int
}

type schedMsg struct {
	t    *Task
	kind int // 0 yield, 1 block, 2 done
}

// SchedSpec is the part of a trace that fixes the interleaving.
type SchedSpec struct {
	Policy    string `json:"policy,omitempty"` // "rand" (default), "rr", "seq"
	Seed      uint64 `json:"seed,omitempty"`
	SwitchPct int    `json:"switch_pct,omitempty"` // for "rand": probability to switch at a yield (0 = 50)
}

type Sim struct {
	Log      *Log
	tasks    []*Task
	msgs     chan schedMsg
	spec     SchedSpec
	rng      *Rng
	cur      *Task
	multi    bool
	Switches int
	MaxSteps int
	Steps    int
	Aborted  string
	// OnQuiescent is called when no task is runnable and at least one is
	// blocked. It may change conditions (release bytes, inject errors). If it
	// returns false the run ends and blocked tasks are killed.
	OnQuiescent func() bool
}

func NewSim(log *Log, spec SchedSpec) *Sim {
	s := &Sim{Log: log, spec: spec, msgs: make(chan schedMsg), MaxSteps: 1 << 22}
	s.rng = NewRng(spec.Seed ^ 0x5ced5ced)
	return s
}

var ErrKilled = errors.New("sim: task killed")

// Go registers a task. Tasks start when Run is called.
func (s *Sim) Go(name string, f func(t *Task)) *Task {
	t := &Task{ID: len(s.tasks), Name: name, sim: s, resume: make(chan bool)}
	s.tasks = append(s.tasks, t)
	go func() {
		defer func() {
			if r := recover(); r != nil {
				if r != ErrKilled {
					t.Panic = r
					buf := make([]byte, 8192)
					t.Stack = string(buf[:runtime.Stack(buf, false)])
				}
			}
			t.state = tsDone
			s.msgs <- schedMsg{t, 2}
		}()
		if !<-t.resume {
			panic(ErrKilled)
		}
		f(t)
	}()
	return t
}

// Yield is called by seams on behalf of the running task; the scheduler may
// hand the baton to another task. In single-task simulations it only counts.
func (t *Task) Yield() {
	if t == nil {
		return
	}
	t.Steps++
	s := t.sim
	if !s.multi {
		s.Steps++
		if s.Steps > s.MaxSteps {
			s.Aborted = "step cap"
			panic(ErrKilled)
		}
		return
	}
	s.msgs <- schedMsg{t, 0}
	if !<-t.resume {
		panic(ErrKilled)
	}
}

// Block parks the task until cond() is true.
func (t *Task) Block(cond func() bool) {
	s := t.sim
	t.cond = cond
	t.state = tsBlocked
	s.Log.Ev(t.ID, EvBlock, 0, 0, "")
	s.msgs <- schedMsg{t, 1}
	if !<-t.resume {
		panic(ErrKilled)
	}
}

func (s *Sim) pick(runnable []*Task) *Task {
	if len(runnable) == 1 {
		return runnable[0]
	}
	switch s.spec.Policy {
	case "seq":
		return runnable[0]
	case "rr":
		if s.cur != nil {
			for _, t := range runnable {
				if t.ID > s.cur.ID {
					return t
				}
			}
		}
		return runnable[0]
	}
	pct := s.spec.SwitchPct
	if pct == 0 {
		pct = 50
	}
	if s.cur != nil && s.cur.state == tsRunnable && s.rng.Intn(100) >= pct {
		return s.cur
	}
	return runnable[s.rng.Intn(len(runnable))]
}

// Run drives all registered tasks to completion (or quiescence with
// OnQuiescent returning false / absent).
func (s *Sim) Run() {
	s.multi = true
	for {
		var runnable []*Task
		blocked := 0
		for _, t := range s.tasks {
			if t.state == tsBlocked && t.cond() {
				t.state = tsRunnable
				t.cond = nil
				s.Log.Ev(t.ID, EvRelease, 0, 0, "")
			}
			switch t.state {
			case tsRunnable:
				runnable = append(runnable, t)
			case tsBlocked:
				blocked++
			}
		}
		if len(runnable) == 0 {
			if blocked == 0 {
				return
			}
			if s.OnQuiescent != nil && s.OnQuiescent() {
				continue
			}
			s.killBlocked()
			return
		}
		s.Steps++
		if s.Steps > s.MaxSteps {
			s.Aborted = "step cap"
			s.killAll(runnable)
			return
		}
		t := s.pick(runnable)
		if s.cur != t {
			s.Switches++
			s.Log.Ev(t.ID, EvSwitch, 0, 0, "")
		}
		s.cur = t
		t.resume <- true
		<-s.msgs // the task yielded, blocked or finished
	}
}

func (s *Sim) killBlocked() {
	for _, t := range s.tasks {
		if t.state == tsBlocked {
			t.resume <- false
			<-s.msgs
		}
	}
}

func (s *Sim) killAll(runnable []*Task) {
	for _, t := range s.tasks {
		if t.state != tsDone {
			t.resume <- false
			<-s.msgs
		}
	}
}

// Solo runs f as the single task of a simulation on the calling goroutine.
func (s *Sim) Solo(name string, f func(t *Task)) *Task {
	t := &Task{ID: len(s.tasks), Name: name, sim: s}
	s.tasks = append(s.tasks, t)
	func() {
		defer func() {
			if r := recover(); r != nil {
				if r != ErrKilled {
					t.Panic = r
					buf := make([]byte, 8192)
					t.Stack = string(buf[:runtime.Stack(buf, false)])
				}
			}
		}()
		f(t)
	}()
	t.state = tsDone
	return t
}

// ---------------------------------------------------------------- sink

// InjectedError is the unique error type the simulator injects.
type InjectedError struct {
	Tag string
	// WrapsEOF: errors.Is(err, io.EOF) is true although err != io.EOF (e.g. a
	// transport error that wraps the EOF it saw); still "an error other than io.EOF".
	WrapsEOF bool
}

func (e *InjectedError) Error() string { return "sim: injected " + e.Tag }

func (e *InjectedError) Unwrap() error {
	if e.WrapsEOF {
		return io.EOF
	}
	return nil
}

type SinkFault struct {
	AtCall int  `json:"at_call"`         // 1-based call number that fails; 0 = never
	Short  bool `json:"short,omitempty"` // accept part of the data and report n>0 with the error
	// Transient: only call AtCall fails; the destination accepts later calls
	// again (a Writer that loses the error then completes "successfully").
	Transient bool `json:"transient,omitempty"`
	// NoErrShort: return n < len(p) with a nil error (a misbehaving io.Writer) is
	// not modelled: io.Writer's contract forbids it.
}

type SimSink struct {
	Task  *Task
	Log   *Log
	Name  string
	Data  []byte
	Calls int
	Lens  []int
	Fault *SinkFault
	Err   *InjectedError

	Failed         bool
	CallsAfterFail int
	BytesAfterFail int
	FailedAtCall   int
}

func NewSink(t *Task, log *Log, name string, f *SinkFault) *SimSink {
	return &SimSink{Task: t, Log: log, Name: name, Fault: f, Err: &InjectedError{Tag: "sink " + name}}
}

func (s *SimSink) Write(p []byte) (int, error) {
	s.Task.Yield()
	s.Calls++
	tid := 0
	if s.Task != nil {
		tid = s.Task.ID
	}
	if s.Failed {
		s.CallsAfterFail++
		s.BytesAfterFail += len(p)
		if s.Fault != nil && s.Fault.Transient {
			s.Data = append(s.Data, p...)
			s.Lens = append(s.Lens, len(p))
			s.Log.Ev(tid, EvSinkWrite, len(p), 6, s.Name)
			return len(p), nil
		}
		s.Log.Ev(tid, EvSinkWrite, len(p), 2, s.Name)
		return 0, s.Err
	}
	if s.Fault != nil && s.Fault.AtCall == s.Calls {
		s.Failed = true
		s.FailedAtCall = s.Calls
		n := 0
		if s.Fault.Short && len(p) > 1 {
			n = len(p) / 2
			s.Data = append(s.Data, p[:n]...)
		}
		s.Lens = append(s.Lens, n)
		s.Log.Ev(tid, EvSinkWrite, len(p), 1, s.Name)
		s.Log.Ev(tid, EvFault, s.Calls, 1, "sink fault")
		return n, s.Err
	}
	s.Data = append(s.Data, p...)
	s.Lens = append(s.Lens, len(p))
	s.Log.Ev(tid, EvSinkWrite, len(p), int(HashBytes(p)&0x3fffffff)<<2, s.Name)
	return len(p), nil
}

// ---------------------------------------------------------------- source

// Delivery fixes how a source hands out its bytes.
type Delivery struct {
	Chunks      []int `json:"chunks,omitempty"`        // sizes of successive reads, cycled; 0 or absent = as much as asked
	EOFWithData bool  `json:"eof_with_data,omitempty"` // last bytes come together with io.EOF
	FailAfter   int   `json:"fail_after,omitempty"`    // >0: after k bytes... see HasFail
	HasFail     bool  `json:"has_fail,omitempty"`      // the source fails after FailAfter bytes
	ErrWithData bool  `json:"err_with_data,omitempty"` // the error comes with the last delivered bytes
	ErrWrapsEOF bool  `json:"err_wraps_eof,omitempty"` // the injected error wraps io.EOF (errors.Is true, == false)
}

type SimSource struct {
	Task *Task
	Log  *Log
	Name string
	Data []byte
	Pos  int
	Del  Delivery
	Err  *InjectedError

	Calls         int
	ci            int
	ErrGiven      int
	EOFGiven      int
	CallsAfterEnd int
}

func NewSource(t *Task, log *Log, name string, data []byte, d Delivery) *SimSource {
	return &SimSource{Task: t, Log: log, Name: name, Data: data, Del: d, Err: &InjectedError{Tag: "source " + name, WrapsEOF: d.ErrWrapsEOF}}
}

func (s *SimSource) limit() int {
	end := len(s.Data)
	if s.Del.HasFail && s.Del.FailAfter < end {
		end = s.Del.FailAfter
	}
	return end
}

func (s *SimSource) Read(p []byte) (int, error) {
	s.Task.Yield()
	s.Calls++
	tid := 0
	if s.Task != nil {
		tid = s.Task.ID
	}
	if len(p) == 0 {
		s.Log.Ev(tid, EvSourceRead, 0, 0, s.Name)
		return 0, nil
	}
	end := s.limit()
	fails := s.Del.HasFail && s.Del.FailAfter <= len(s.Data)
	if s.Pos >= end {
		s.CallsAfterEnd++
		if fails {
			s.ErrGiven++
			s.Log.Ev(tid, EvSourceRead, len(p), 3, s.Name)
			return 0, s.Err
		}
		s.EOFGiven++
		s.Log.Ev(tid, EvSourceRead, len(p), 4, s.Name)
		return 0, io.EOF
	}
	n := len(p)
	if len(s.Del.Chunks) > 0 {
		c := s.Del.Chunks[s.ci%len(s.Del.Chunks)]
		s.ci++
		if c > 0 && c < n {
			n = c
		}
	}
	if n > end-s.Pos {
		n = end - s.Pos
	}
	copy(p, s.Data[s.Pos:s.Pos+n])
	s.Pos += n
	if s.Pos >= end {
		if fails && s.Del.ErrWithData {
			s.ErrGiven++
			s.Log.Ev(tid, EvSourceRead, n, 5, s.Name)
			return n, s.Err
		}
		if !fails && s.Del.EOFWithData {
			s.EOFGiven++
			s.Log.Ev(tid, EvSourceRead, n, 6, s.Name)
			return n, io.EOF
		}
	}
	s.Log.Ev(tid, EvSourceRead, n, 0, s.Name)
	return n, nil
}

// ---------------------------------------------------------------- pipe

// Pipe is a one-directional byte pipe between a producer task (Write) and a
// consumer task (Read). The driver decides how many of the produced bytes are
// released to the consumer; a consumer that asks for unreleased bytes blocks.
type Pipe struct {
	Log        *Log
	Buf        []byte // everything the producer has written
	Released   int    // bytes the consumer may see
	Pos        int    // bytes the consumer has taken
	Closed     bool   // producer finished: after all released bytes, EOF (only if EOFAllowed)
	EOFAllowed bool
	PostErr    error  // when set, returned once the released bytes are consumed
	Garbage    []byte // when set, delivered after the released bytes (unrelated bytes)
	Join       bool   // the garbage continues the SAME Read call that hands out the last released bytes
	gpos       int
	Chunks     []int
	ci         int
	Consumer   *Task
	Producer   *Task
	Waiting    bool
	Reads      int
	WCalls     int
}

func (p *Pipe) Write(b []byte) (int, error) {
	p.Producer.Yield()
	p.WCalls++
	p.Buf = append(p.Buf, b...)
	p.Log.Ev(p.Producer.ID, EvSinkWrite, len(b), 0, "pipe")
	return len(b), nil
}

func (p *Pipe) ready() bool {
	return p.Pos < p.Released || p.PostErr != nil || p.gpos < len(p.Garbage) || (p.EOFAllowed && p.Closed && p.Released >= len(p.Buf))
}

func (p *Pipe) Read(b []byte) (int, error) {
	p.Consumer.Yield()
	p.Reads++
	if len(b) == 0 {
		return 0, nil
	}
	for !p.ready() {
		p.Waiting = true
		p.Consumer.Block(p.ready)
		p.Waiting = false
	}
	tid := p.Consumer.ID
	if p.Pos < p.Released {
		n := len(b)
		if len(p.Chunks) > 0 {
			c := p.Chunks[p.ci%len(p.Chunks)]
			p.ci++
			if c > 0 && c < n {
				n = c
			}
		}
		if n > p.Released-p.Pos {
			n = p.Released - p.Pos
		}
		copy(b, p.Buf[p.Pos:p.Pos+n])
		p.Pos += n
		if p.Join && p.Pos == p.Released && p.gpos < len(p.Garbage) && n < len(b) {
			g := copy(b[n:], p.Garbage[p.gpos:])
			p.gpos += g
			p.Log.Ev(tid, EvSourceRead, n+g, 8, "pipe + garbage")
			return n + g, nil
		}
		p.Log.Ev(tid, EvSourceRead, n, 0, "pipe")
		return n, nil
	}
	if p.gpos < len(p.Garbage) {
		n := copy(b, p.Garbage[p.gpos:])
		p.gpos += n
		p.Log.Ev(tid, EvSourceRead, n, 7, "pipe garbage")
		return n, nil
	}
	if p.PostErr != nil {
		p.Log.Ev(tid, EvSourceRead, 0, 3, "pipe err")
		return 0, p.PostErr
	}
	p.Log.Ev(tid, EvSourceRead, 0, 4, "pipe eof")
	return 0, io.EOF
}

// PickS returns one of the given strings.
func (r *Rng) PickS(v ...string) string { return v[r.Intn(len(v))] }
