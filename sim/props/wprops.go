package props

import (
	"bytes"
	"fmt"
	"io"

	"fgverif/kern"
	"fgverif/ref"
	"fgverif/scen"
)

func runW(sc *scen.WScen, fast bool, keep bool) (*scen.WRec, *kern.Log) {
	log := kern.NewLog(keep)
	sim := kern.NewSim(log, kern.SchedSpec{})
	var rec *scen.WRec
	sim.Solo("w", func(t *kern.Task) { rec = scen.RunW(t, log, sc, fast) })
	return rec, log
}

func allNil(rec *scen.WRec) bool {
	if rec.CtorErr != nil || rec.Panic != "" {
		return false
	}
	for _, o := range rec.Ops {
		if o.Err != nil {
			return false
		}
	}
	return true
}

func wDigest(rec *scen.WRec) uint64 {
	h := uint64(14695981039346656037)
	for _, s := range rec.Segs {
		h = h*0x100000001b3 ^ kern.HashBytes(s.Sink.Data)
	}
	for _, o := range rec.Ops {
		h = h*0x100000001b3 ^ kern.HashBytes([]byte(o.Kind))
	}
	return h
}

func dictOf(sc *scen.WScen) []byte {
	if sc.Ctor == "dict" && sc.Dict != nil {
		return sc.Dict.Bytes()
	}
	return nil
}

// payloadStream strips the container framing of a complete gzip/zlib output
// and validates the trailer against the model; it returns the raw deflate
// stream. ok=false with a reason when the framing itself is wrong.
func containerCheck(pkg string, out, model, dict []byte) (oracle, detail string) {
	switch pkg {
	case "gzip":
		p := ref.ParseGzip(out)
		if !p.OK || len(p.Members) != 1 {
			return "container", fmt.Sprintf("reference gzip parser: ok=%v truncated=%v bad=%q members=%d", p.OK, p.Truncated, p.Bad, len(p.Members))
		}
		if !bytes.Equal(p.Members[0].Payload, model) {
			return "payload", "gzip payload differs: " + diffAt(p.Members[0].Payload, model)
		}
	case "zlib":
		p := ref.ParseZlib(out, dict)
		if !p.OK {
			return "container", fmt.Sprintf("reference zlib parser: truncated=%v bad=%q", p.Truncated, p.Bad)
		}
		if p.End != len(out) {
			return "container", fmt.Sprintf("zlib stream ends at %d but %d bytes emitted", p.End, len(out))
		}
		if !bytes.Equal(p.Payload, model) {
			return "payload", "zlib payload differs: " + diffAt(p.Payload, model)
		}
	}
	return "", ""
}

func reachW(o *Outcome, rr *ref.Result, sc *scen.WScen, total int) {
	if rr == nil {
		return
	}
	for _, b := range rr.Blocks {
		o.stat(fmt.Sprintf("blocks_type%d", b.Type), 1)
		if b.MaxCodeLit == 15 {
			o.stat("blocks_with_15bit_litcode", 1)
		}
	}
	if rr.LongestMatch == 258 {
		o.stat("runs_with_match_258", 1)
	}
	w := 32768
	if sc.Ctor == "4k" {
		w = 4096
	}
	if rr.MaxDist == w {
		o.stat("runs_with_max_distance_at_window_edge", 1)
	}
	if total >= 2*w+258 {
		o.stat("runs_with_input_buffer_slide", 1)
	}
	if len(rr.SyncPoints) > 0 {
		o.stat("runs_with_sync_flush", 1)
	}
}

// ===================================================================== C01

type c01 struct{}

func init() { register(c01{}) }

func (c01) ID() string { return "C01" }
func (c01) Runs(tier string) int {
	return tierLen(tier, 6000, 60000)
}

func (c01) Gen(r *kern.Rng, tier string, idx int) *Trace {
	if idx%193 == 11 {
		// content sweep for the vector token encoders: large inputs of dense
		// copies with log-uniform lengths and (far) distances give tokens of
		// 25..35 bits, around the lane-width limits of the assembly encoders
		sc := &scen.WScen{Pkg: "flate", Guard: true, Ctor: r.PickS("new", "new", "4k"), Level: r.Pick(1, 2, -1)}
		sc.Data = scen.DataSpec{Kind: "logcopies", Seed: r.Uint64(), P1: r.Pick(0, 1), Len: r.Range(150000, 320000)}
		sc.Ops = []scen.WOp{{K: "w", N: 1 << 30}, {K: "c"}}
		stride, note := contentSweepKind(r, tier, sc)
		return &Trace{Property: "C01", Family: "W-plain(content sweep)", W: sc, Sweep: true, Stride: stride, Note: note}
	}
	if idx%197 == 3 { // a prime, so that the sweeps spread over all worker shards
		// length sweep: the same setting and data for several hundred consecutive
		// input lengths, so that the end of the data meets every phase of the
		// encoder's output-buffer roll-over
		sc := &scen.WScen{Pkg: "flate", Guard: true, Ctor: r.PickS("new", "new", "4k")}
		sc.Level = r.Pick(-2, -2, -2, 1, 2, -1)
		sc.Data = scen.DataSpec{Kind: r.PickS("rand", "rand", "text", "alpha", "fib", "logcopies", "geo"), Seed: r.Uint64(), P1: r.Pick(3, 16, 24, 200), P2: r.Pick(13, 16, 20)}
		sc.Data.Len = r.Pick(7900, 8100, 16200, 24400, 30000, 65500, 73000) + r.Intn(300)
		if sc.Data.Kind == "fib" {
			// the block ends in its rarest symbols (longest codes right before end-of-block);
			// short blocks too, where a handful of maximal codes is all there is
			sc.Data.P1, sc.Data.P2 = r.Pick(16, 21, 24, 30), r.Pick(0, 3, 3, 4, 7)
			if r.Pct(50) {
				sc.Data.Len = r.Pick(300, 1000, 2600, 4200, 7000, 20000, 30000) + r.Intn(300)
			}
		}
		if q := idx / 197; q%4 == 2 {
			// every fourth sweep: a block that ENDS in its rarest symbols (15-bit codes directly before end-of-block),
			// cycling through Huffman-only (twice), level 1 and level 2
			c := q / 4
			sc.Level = []int{-2, 1, -2, 2}[c%4]
			sc.Data.Kind, sc.Data.P1, sc.Data.P2 = "fib", []int{21, 16, 24, 30}[(c/4)%4], r.Pick(3, 3, 4, 7)
			sc.Data.Len = r.Pick(2600, 4200, 7000, 20000, 30000, 47000) + r.Intn(300)
		} else if q%4 == 0 || (r.Pct(10) && sc.Level != -2) {
			// sparse-file shape: the length of the incompressible head sweeps across the point where the token
			// buffer fills (32767 tokens: one literal per token in the portable finder, two at the assembly levels),
			// and a long repeat starts there. Every fourth sweep is of this kind and they cycle through both
			// constructors, levels 1 and 2/default, and both head lengths.
			sc.Data.Kind, sc.Data.P1, sc.Data.P2 = "head_run", r.Pick(20000, 70000), r.Pick(0, 0, 7, 300)
			k := r.Pick(1, 2)
			if q%4 == 0 {
				c := q / 4
				sc.Ctor = []string{"new", "4k"}[c%2]
				sc.Level = []int{1, 2, 1, -1}[(c/2)%4]
				k = 1 + (c/4)%2
			}
			sc.Data.Len = sc.Data.P1 + k*32767 - 350 + r.Intn(60)
		}
		sc.Ops = []scen.WOp{{K: "w", N: 1 << 30}, {K: "c"}}
		if r.Pct(30) {
			sc.Ops = []scen.WOp{{K: "w", N: 1000 + r.Intn(3000)}, {K: "f"}, {K: "w", N: 1 << 30}, {K: "c"}}
		}
		return &Trace{Property: "C01", Family: "W-plain(length sweep)", W: sc, Sweep: true, Stride: tierLen(tier, 400, 800)}
	}
	maxLen := tierLen(tier, 300000, 2<<20)
	if r.Pct(70) {
		maxLen = 140000
	}
	sc := genFlateW(r, maxLen)
	sc.Ops = GenOps(r, sc.Data.Len, r.Pick(0, 0, 10, 30, 60), 200)
	if r.Pct(8) && sc.Data.Len > 10 {
		// the Writer had an earlier life that was abandoned (no Close, possibly in the middle of a block) and was
		// Reset onto a new destination: what it emits there until Close returns nil must be one complete stream too
		n1 := r.Pick(66000, 70000, 140000, 1+r.Intn(sc.Data.Len))
		if n1 > sc.Data.Len/2 {
			n1 = sc.Data.Len / 2
		}
		pre := []scen.WOp{{K: "w", N: n1}}
		if r.Pct(30) {
			pre = append(pre, scen.WOp{K: "f"}, scen.WOp{K: "w", N: r.Intn(1 + n1/4)})
		}
		pre = append(pre, scen.WOp{K: "r"})
		sc.Ops = append(pre, GenOps(r, sc.Data.Len-sumWrites(pre), r.Pick(0, 0, 10, 30), 100)...)
		return &Trace{Property: "C01", Family: "W-plain(after an abandoned earlier life)", W: sc}
	}
	return &Trace{Property: "C01", Family: "W-plain", W: sc}
}

func (c01) Exec(tr *Trace, keep bool) *Outcome {
	if tr.Sweep {
		return lengthSweep(tr, keep, func(c *Trace) *Outcome { return c01{}.Exec(c, keep) })
	}
	o := &Outcome{LevelIndep: true}
	sc := tr.W
	rec, log := runW(sc, true, keep)
	feat := wFeatures(sc)
	total := sumWrites(sc.Ops)
	o.fold(log, rec.CtorErr == nil && total > 0)
	o.Digest = wDigest(rec)
	o.Sample = fmt.Sprintf("flate %s level %d data %s/%d ops %s", sc.Ctor, sc.Level, sc.Data.Kind, sc.Data.Len, feat["ops"])
	if rec.Panic != "" {
		o.violate(tr, "C01.panic", rec.Panic, feat)
		return o
	}
	if rec.CanaryErr != "" {
		o.violate(tr, "C01.canary", rec.CanaryErr, feat)
	}
	if rec.CtorErr != nil {
		o.stat("ctor_rejected", 1)
		return o
	}
	if !allNil(rec) {
		o.stat("runs_with_error_from_accepting_sink", 1)
		return o
	}
	if n := len(sc.Ops); n == 0 || sc.Ops[n-1].K != "c" || countOps(sc.Ops, "c") != 1 {
		return o // the statement is about the bytes emitted once (the one) Close returned nil
	}
	// (Reset before that Close: an abandoned earlier life; the destination in force at Close is judged)
	seg := rec.Segs[len(rec.Segs)-1]
	if countOps(sc.Ops, "r") > 0 {
		o.stat("runs_after_an_abandoned_earlier_life", 1)
	}
	orc, det, rr := checkStream(seg.Sink.Data, seg.Model, dictOf(sc), 0)
	reachW(o, rr, sc, total)
	o.stat("class_"+feat["class"], 1)
	if rec.Guarded {
		o.stat("runs_with_canaries", 1)
	}
	if orc != "" {
		if !sc.Accelerated() {
			if countOps(sc.Ops, "r") > 0 {
				feat["same_as_stdlib_writer"] = fmt.Sprint(sameAsStdlibSeg(sc, -2))
			} else {
				feat["same_as_stdlib_writer"] = fmt.Sprint(sameAsStdlib(sc, seg.Sink.Data))
			}
		}
		o.violate(tr, "C01."+orc, det, feat)
	}
	return o
}

// sameAsStdlib reports whether compress/flate's own Writer emits exactly the
// same bytes for the same history (delegated settings).
func sameAsStdlib(sc *scen.WScen, got []byte) bool {
	m := *sc
	m.Guard = false
	srec, _ := runW(&m, false, false)
	return srec.Panic == "" && srec.CtorErr == nil && len(srec.Segs) > 0 && bytes.Equal(srec.Segs[0].Sink.Data, got)
}

// sameAsStdlibAll: every destination of the history received exactly the bytes
// the standard library's Writer emits for the same history (no faults).
func sameAsStdlibAll(sc *scen.WScen) bool { return sameAsStdlibSeg(sc, -1) }

// sameAsStdlibSeg compares one destination (seg >= 0), the last one (-2) or
// all of them (-1).
func sameAsStdlibSeg(sc *scen.WScen, seg int) bool {
	f := *sc
	f.Guard, f.Fault = false, nil
	frec, _ := runW(&f, true, false)
	srec, _ := runW(&f, false, false)
	if frec.Panic != "" || srec.Panic != "" || frec.CtorErr != nil || srec.CtorErr != nil || len(frec.Segs) != len(srec.Segs) {
		return false
	}
	if seg == -2 {
		seg = len(frec.Segs) - 1
	}
	for i := range frec.Segs {
		if seg >= 0 && i != seg {
			continue
		}
		if !bytes.Equal(frec.Segs[i].Sink.Data, srec.Segs[i].Sink.Data) {
			return false
		}
	}
	return true
}

// contentSweepKind picks what a content sweep varies (sc.Data, possibly
// sc.Level) and returns its stride and the sweep note.
func contentSweepKind(r *kern.Rng, tier string, sc *scen.WScen) (int, string) {
	switch r.Weighted(3, 3, 2, 2) {
	case 1:
		// bursts of maximal-width tokens; the length of the leading fresh run is swept, which moves every burst
		// through the phases of the encoder's output-buffer hand-over
		sc.Data = scen.DataSpec{Kind: "heavyburst", Seed: r.Uint64(), P1: r.Range(4200, 9000), P2: r.Pick(33, 64), Len: r.Range(80000, 200000)}
		if r.Pct(75) {
			// one burst, placed where the emitted size is about to cross a multiple of the encoders' 8 KiB
			// output buffer (fresh bytes cost about 8 bits each): the sweep moves it across that point
			sc.Data.Seed |= 1
			k := r.Pick(1, 1, 1, 2, 3)
			sc.Data.P1 = k*8192 - 350*k - 400 + r.Intn(40) // (hand-overs come a little before the multiples)
			sc.Data.Len = sc.Data.P1 + 90000
			return tierLen(tier, 250, 500), "p1_sweep"
		}
		sc.Data.Seed &^= 1
		return tierLen(tier, 40, 120), "p1_sweep"
	case 2:
		// histograms that make the code-length code (limit 7 bits) deep
		sc.Level = r.Pick(-2, -2, -2, 1, 2)
		sc.Data = scen.DataSpec{Kind: "dyadic", Seed: r.Uint64(), P1: r.Pick(13, 14, 15, 15), P2: 2}
		sc.Data.Len = 1<<uint(sc.Data.P1) - 1
		return tierLen(tier, 200, 600), "seed_sweep"
	case 3:
		// histograms whose optimal literal code is much deeper than 15 bits
		sc.Level = r.Pick(-2, -2, -2, 1, 2)
		sc.Data = scen.DataSpec{Kind: "headtail", Seed: r.Uint64(), P1: r.Pick(11, 13, 14, 15, 17), P2: r.Pick(15, 31, 63, 100, 200)}
		sc.Data.Len = r.Range(20000, 65000)
		return tierLen(tier, 100, 300), "seed_sweep"
	}
	return tierLen(tier, 40, 120), "seed_sweep"
}

// lengthSweep executes the trace for Stride consecutive data lengths.
func lengthSweep(tr *Trace, keep bool, exec func(*Trace) *Outcome) *Outcome {
	o := &Outcome{LevelIndep: true}
	o.stat("length_sweeps", 1)
	h := uint64(0)
	if tr.Note == "" && tr.W.Data.Kind != "head_run" && tr.Index%2 == 0 { // (content sweeps carry a note)
		// aim the window: start it shortly before the length at which the emitted
		// size crosses the next multiple of 8 KiB (encoders hand their output over
		// in buffer-sized pieces; the end of the data should meet that hand-over)
		probe := tr.Clone()
		probe.Sweep = false
		if rec, _ := runW(probe.W, true, false); rec.Panic == "" && rec.CtorErr == nil && len(rec.Segs) > 0 {
			e0, n0 := len(rec.Segs[0].Sink.Data), tr.W.Data.Len
			if e0 > 64 && n0 > 64 {
				need := 8192 - e0%8192 - tr.Stride/2*e0/n0
				for need < 0 {
					need += 8192
				}
				shift := need * n0 / e0
				if shift < 200000 {
					tr = tr.Clone()
					tr.W.Data.Len += shift
					o.stat("length_sweeps_aimed_at_8k_output_boundary", 1)
				}
			}
		}
	}
	for d := 0; d < tr.Stride; d++ {
		c := tr.Clone()
		c.Sweep, c.Stride = false, 0
		if tr.Note == "seed_sweep" {
			c.W.Data.Seed = tr.W.Data.Seed + uint64(d) // same shape, different content
			c.Note = ""
		} else if tr.Note == "p1_sweep" {
			c.W.Data.P1 = tr.W.Data.P1 + 2*d // same content behind a longer and longer leading run
			c.Note = ""
		} else {
			c.W.Data.Len = tr.W.Data.Len + d
		}
		so := exec(c)
		o.Evals += so.Evals
		o.Events += so.Events
		o.LogHash = o.LogHash*0x100000001b3 ^ so.LogHash
		o.Sigs = append(o.Sigs, so.Sigs...)
		h = h*0x100000001b3 ^ so.Digest
		for k, v := range so.Stats {
			o.stat(k, v)
		}
		o.Violations = append(o.Violations, so.Violations...)
		if len(o.Violations) > 3 {
			break
		}
	}
	if len(o.Sigs) > 16 {
		o.Sigs = o.Sigs[:16]
	}
	o.Digest = h
	o.Sample = fmt.Sprintf("length sweep: %s %s level %d data %s, lengths %d..%d, ops %s", tr.W.Pkg, tr.W.Ctor, tr.W.Level, tr.W.Data.Kind, tr.W.Data.Len, tr.W.Data.Len+tr.Stride-1, wFeatures(tr.W)["ops"])
	return o
}

func (c01) Shrinks(tr *Trace) []*Trace { return shrinkTraceW(tr) }

func shrinkTraceW(tr *Trace) []*Trace {
	var out []*Trace
	for _, w := range shrinkW(tr.W) {
		c := tr.Clone()
		c.W = w
		out = append(out, c)
	}
	return out
}

// ===================================================================== C09

type c09 struct{}

func init() { register(c09{}) }

func (c09) ID() string           { return "C09" }
func (c09) Runs(tier string) int { return tierLen(tier, 5000, 60000) }

// opsWithFlushAt builds a history for data of length total whose Flush calls
// sit at the given byte offsets (sorted, may repeat), with writes split at
// random.
// absAnchors are absolute stream offsets at which an accelerated Writer's
// input buffer fills or slides for the two window sizes (2W, 2W+258, then every
// W+258 / W), i.e. where "how much of this Write still fits" changes.
var absAnchors = func() []int {
	var a []int
	for _, w := range []int{4096, 32768} {
		a = append(a, w, 2*w, 2*w+258)
		for k := 1; k <= 6; k++ {
			a = append(a, 2*w+258+k*(w+258), 2*w+k*w)
		}
	}
	a = append(a, 65536, 131072)
	sortInts(a)
	return a
}()

func nextAnchor(pos int) int {
	for _, a := range absAnchors {
		if a > pos {
			return a
		}
	}
	return -1
}

func opsWithFlushAt(r *kern.Rng, total int, flushAt []int, biased bool) []scen.WOp {
	var ops []scen.WOp
	pos := 0
	emit := func(upto int) {
		for pos < upto {
			left := upto - pos
			var n int
			if a := nextAnchor(pos); a > 0 && a <= upto && r.Pct(35) {
				// end this Write exactly at (or one byte around) a buffer threshold
				n = a - pos + r.Pick(0, 0, 0, -1, 1)
				if n < 0 {
					n = 0
				}
			} else if biased {
				switch r.Intn(5) {
				case 0:
					n = 0
				case 1:
					n = 1
				case 2:
					n = chunkAnchors[r.Intn(len(chunkAnchors))]
				default:
					n = r.Intn(left + 1)
				}
			} else {
				switch r.Intn(3) {
				case 0:
					n = left
				default:
					n = 1 + r.Intn(left)
				}
			}
			if n > left {
				n = left
			}
			if len(ops) > 400 {
				n = left
			}
			ops = append(ops, scen.WOp{K: "w", N: n})
			pos += n
		}
		if biased && r.Pct(20) {
			ops = append(ops, scen.WOp{K: "w", N: 0})
		}
	}
	for _, f := range flushAt {
		emit(f)
		ops = append(ops, scen.WOp{K: "f"})
	}
	emit(total)
	ops = append(ops, scen.WOp{K: "c"})
	return ops
}

func (c09) Gen(r *kern.Rng, tier string, idx int) *Trace {
	maxLen := tierLen(tier, 300000, 1<<20)
	var sc *scen.WScen
	switch r.Weighted(7, 2, 1) {
	case 0:
		sc = genFlateW(r, maxLen)
		if sc.Ctor == "dict" {
			sc.Ctor, sc.Dict = "new", nil
		}
		if r.Pct(85) {
			sc.Level = r.Pick(-2, -1, 1, 2)
		}
	case 1:
		sc = genContainerW(r, "gzip", maxLen)
	default:
		sc = genContainerW(r, "zlib", maxLen)
	}
	// the statement quantifies over the accelerated settings only (the
	// delegated stdlib compressor's output does depend on Write sizes)
	for k := 0; !sc.Accelerated() && k < 8; k++ {
		sc.Level = r.Pick(-2, -1, 1, 2)
		if sc.Ctor == "dict" {
			sc.Ctor, sc.Dict = "level", nil
		}
	}
	total := sc.Data.Len
	var fl []int
	nf := r.Pick(0, 0, 1, 2, 5)
	for i := 0; i < nf; i++ {
		f := r.Intn(total + 1)
		if r.Pct(50) {
			// just below / at a buffer threshold
			f = absAnchors[r.Intn(len(absAnchors))] - r.Pick(0, 1, 2, 100, 257, 258, 259, 300) + r.Pick(0, 0, 1)
			if f < 0 || f > total {
				f = r.Intn(total + 1)
			}
		}
		fl = append(fl, f)
	}
	if len(fl) > 0 && r.Pct(25) {
		fl = append(fl, fl[r.Intn(len(fl))]) // two Flushes at the same data position
	}
	sortInts(fl)
	sc.Ops = opsWithFlushAt(r, total, fl, true)
	w2 := *sc
	w2.Ops = opsWithFlushAt(r, total, fl, r.Bool())
	return &Trace{Property: "C09", Family: "W-pair", W: sc, W2: &w2}
}

func sortInts(a []int) {
	for i := 1; i < len(a); i++ {
		for j := i; j > 0 && a[j] < a[j-1]; j-- {
			a[j], a[j-1] = a[j-1], a[j]
		}
	}
}

func (c09) Exec(tr *Trace, keep bool) *Outcome {
	o := &Outcome{LevelIndep: true}
	r1, l1 := runW(tr.W, true, keep)
	r2, l2 := runW(tr.W2, true, keep)
	feat := wFeatures(tr.W)
	nontriv := len(tr.W.Ops) != len(tr.W2.Ops) || fmt.Sprint(tr.W.Ops) != fmt.Sprint(tr.W2.Ops)
	o.fold(l1, nontriv && sumWrites(tr.W.Ops) > 0)
	o.fold(l2, false)
	o.Digest = wDigest(r1)
	o.Sample = fmt.Sprintf("%s %s level %d data %s/%d: %d ops vs %d ops", tr.W.Pkg, tr.W.Ctor, tr.W.Level, tr.W.Data.Kind, tr.W.Data.Len, len(tr.W.Ops), len(tr.W2.Ops))
	if r1.Panic != "" || r2.Panic != "" {
		o.violate(tr, "C09.panic", r1.Panic+r2.Panic, feat)
		return o
	}
	if r1.CtorErr != nil {
		return o
	}
	if !tr.W.Accelerated() {
		o.stat("skipped_delegated_setting", 1)
		return o
	}
	if !allNil(r1) || !allNil(r2) {
		o.stat("runs_with_error_from_accepting_sink", 1)
		return o
	}
	o.stat("class_"+feat["class"], 1)
	if sumWrites(tr.W.Ops) >= 65794 {
		o.stat("runs_past_input_rollover", 1)
	}
	a, b := r1.Segs[0].Sink.Data, r2.Segs[0].Sink.Data
	if !bytes.Equal(a, b) {
		o.violate(tr, "C09.bytes", "outputs of two partitions differ: "+diffAt(a, b), feat)
	}
	return o
}

func (c09) Shrinks(tr *Trace) []*Trace {
	var out []*Trace
	// shrink data length on both (ops clip automatically)
	for _, d := range shrinkData(tr.W.Data) {
		c := tr.Clone()
		c.W.Data, c.W2.Data = d, d
		out = append(out, c)
	}
	// merge adjacent writes in either history (keeps Flush positions)
	for side := 0; side < 2; side++ {
		src := tr.W
		if side == 1 {
			src = tr.W2
		}
		for i := 0; i+1 < len(src.Ops); i++ {
			if src.Ops[i].K == "w" && src.Ops[i+1].K == "w" {
				c := tr.Clone()
				dst := c.W
				if side == 1 {
					dst = c.W2
				}
				dst.Ops[i].N += dst.Ops[i+1].N
				dst.Ops = append(dst.Ops[:i+1], dst.Ops[i+2:]...)
				out = append(out, c)
			}
		}
	}
	return out
}

// ===================================================================== C10

type c10 struct{}

func init() { register(c10{}) }

func (c10) ID() string           { return "C10" }
func (c10) Runs(tier string) int { return tierLen(tier, 5000, 50000) }

func (c10) Gen(r *kern.Rng, tier string, idx int) *Trace {
	if idx%199 == 5 {
		// Flush after each of several hundred consecutive data lengths
		sc := &scen.WScen{Pkg: r.PickS("flate", "flate", "gzip", "zlib"), Ctor: "new"}
		if sc.Pkg != "flate" {
			sc.Ctor = "level"
		}
		sc.Level = r.Pick(-2, -2, 1, 2, -1)
		sc.Data = scen.DataSpec{Kind: r.PickS("rand", "rand", "text", "alpha", "fib", "geo"), Seed: r.Uint64(), P1: r.Pick(3, 16, 24, 200), P2: r.Pick(13, 16, 20)}
		sc.Data.Len = r.Pick(60, 7900, 8100, 16200, 30000, 65500) + r.Intn(300)
		if sc.Data.Kind == "fib" {
			sc.Data.P1, sc.Data.P2 = r.Pick(16, 21, 24, 30), r.Pick(0, 3, 3, 4, 7)
			if r.Pct(50) {
				sc.Data.Len = r.Pick(300, 1000, 2600, 4200, 7000, 20000) + r.Intn(300)
			}
		}
		sc.Ops = []scen.WOp{{K: "w", N: 1 << 30}, {K: "f"}, {K: "c"}}
		return &Trace{Property: "C10", Family: "W-plain+flush-invariant(length sweep)", W: sc, Sweep: true, Stride: tierLen(tier, 300, 600)}
	}
	maxLen := tierLen(tier, 200000, 1<<20)
	if r.Pct(60) {
		maxLen = 20000
	}
	var sc *scen.WScen
	switch r.Weighted(6, 2, 2) {
	case 0:
		sc = genFlateW(r, maxLen)
	case 1:
		sc = genContainerW(r, "gzip", maxLen)
	default:
		sc = genContainerW(r, "zlib", maxLen)
	}
	if r.Pct(25) {
		sc.Level = -2
	}
	sc.Ops = GenOps(r, sc.Data.Len, r.Pick(30, 60, 100), 120)
	// emphasise Flush first / repeated / with nothing pending
	if r.Pct(30) {
		sc.Ops = append([]scen.WOp{{K: "f"}}, sc.Ops...)
	}
	return &Trace{Property: "C10", Family: "W-plain+flush-invariant", W: sc}
}

// deflateStart returns the offset of the raw deflate data inside the emitted
// container bytes (or -1 when the header is not there yet).
func deflateStart(sc *scen.WScen, out []byte) int {
	switch sc.Pkg {
	case "gzip":
		return ref.GzipHeaderLen(out)
	case "zlib":
		if len(out) < 2 {
			return -1
		}
		if out[1]&0x20 != 0 {
			if len(out) < 6 {
				return -1
			}
			return 6
		}
		return 2
	}
	return 0
}

// flushPrefixCheck is the invariant at an acknowledged Flush.
func flushPrefixCheck(sc *scen.WScen, emitted, model []byte) (oracle, detail string) {
	hs := deflateStart(sc, emitted)
	if hs < 0 {
		if len(model) == 0 && len(emitted) == 0 {
			return "", ""
		}
		return "prefix_decode_ref", fmt.Sprintf("container header incomplete after Flush (%d bytes emitted, %d bytes written)", len(emitted), len(model))
	}
	prefix := emitted[hs:]
	dict := dictOf(sc)
	if sc.Pkg == "zlib" && hs != 6 {
		dict = nil
	}
	rr := ref.Inflate(prefix, ref.Options{Dict: dict})
	if rr.Defect != nil {
		return "prefix_decode_ref", "reference inflater reports " + rr.Defect.String() + " in the flushed prefix"
	}
	if rr.Complete {
		return "prefix_decode_ref", "flushed prefix already contains a final block"
	}
	if !bytes.Equal(rr.Out, model) {
		return "prefix_decode_ref", "reference inflater on the flushed prefix: " + diffAt(rr.Out, model) + " (got vs written)"
	}
	if rr.StopBit != int64(len(prefix))*8 {
		return "not_aligned", fmt.Sprintf("decoder stops at bit %d but %d bits were emitted: the prefix does not end on a block boundary", rr.StopBit, len(prefix)*8)
	}
	for _, b := range rr.Blocks {
		if b.EndBit == 0 {
			return "not_aligned", "last block of the flushed prefix is incomplete"
		}
	}
	sd := stdInflate(prefix, dict)
	if !bytes.Equal(sd.out, model) {
		return "prefix_decode_std", "compress/flate on the flushed prefix: " + diffAt(sd.out, model)
	}
	if sd.err != io.ErrUnexpectedEOF {
		return "prefix_decode_std", fmt.Sprintf("compress/flate on the flushed prefix ends with %v, want unexpected EOF (asks for more)", sd.err)
	}
	return "", ""
}

func (c10) Exec(tr *Trace, keep bool) *Outcome {
	if tr.Sweep {
		return lengthSweep(tr, keep, func(c *Trace) *Outcome { return c10{}.Exec(c, keep) })
	}
	o := &Outcome{LevelIndep: true}
	sc := tr.W
	rec, log := runW(sc, true, keep)
	feat := wFeatures(sc)
	nFlush := 0
	o.Digest = wDigest(rec)
	o.Sample = fmt.Sprintf("%s %s level %d data %s/%d ops %s", sc.Pkg, sc.Ctor, sc.Level, sc.Data.Kind, sc.Data.Len, feat["ops"])
	defer func() { o.fold(log, nFlush > 0) }()
	if rec.Panic != "" {
		o.violate(tr, "C10.panic", rec.Panic, feat)
		return o
	}
	if rec.CtorErr != nil {
		return o
	}
	seg := rec.Segs[0]
	reported := map[string]bool{}
	for i, op := range rec.Ops {
		if op.Err != nil {
			o.stat("runs_with_error_from_accepting_sink", 1)
			return o
		}
		if op.K != "f" {
			continue
		}
		nFlush++
		o.stat("flush_points_checked", 1)
		if i == 0 {
			o.stat("flush_first", 1)
		}
		if i > 0 && rec.Ops[i-1].K == "f" {
			o.stat("flush_repeated", 1)
		}
		orc, det := flushPrefixCheck(sc, seg.Sink.Data[:op.SinkLen], seg.Model[:op.ModelLen])
		if orc != "" && !reported[orc] {
			reported[orc] = true
			f := map[string]string{}
			for k, v := range feat {
				f[k] = v
			}
			f["flush_op"] = fmt.Sprint(i)
			o.violate(tr, "C10."+orc, fmt.Sprintf("at op %d (Flush after %d bytes written, %d emitted): %s", i, op.ModelLen, op.SinkLen, det), f)
		}
	}
	o.stat("class_"+feat["class"], 1)
	// the whole stream stays valid
	if len(rec.Ops) > 0 && rec.Ops[len(rec.Ops)-1].K == "c" {
		var orc, det string
		if sc.Pkg == "flate" {
			orc, det, _ = checkStream(seg.Sink.Data, seg.Model, dictOf(sc), 0)
		} else {
			orc, det = containerCheck(sc.Pkg, seg.Sink.Data, seg.Model, dictOf(sc))
		}
		if orc != "" {
			o.violate(tr, "C10.later_stream", orc+": "+det, feat)
		}
	}
	return o
}

func (c10) Shrinks(tr *Trace) []*Trace { return shrinkTraceW(tr) }

// ===================================================================== C12

type c12 struct{}

func init() { register(c12{}) }

func (c12) ID() string           { return "C12" }
func (c12) Runs(tier string) int { return tierLen(tier, 5000, 50000) }

// genH1 draws an "earlier life" of a Writer: possibly abandoned mid-stream.
func genH1(r *kern.Rng, total int) []scen.WOp {
	ops := GenOps(r, total, r.Pick(0, 20, 50), 60)
	switch r.Intn(4) {
	case 0: // abandoned: drop the Close
		ops = ops[:len(ops)-1]
	case 1: // abandoned earlier
		ops = ops[:r.Intn(len(ops))]
	case 2: // ops after Close
		ops = append(ops, scen.WOp{K: r.PickS("w", "f", "c"), N: 10})
	}
	return ops
}

func (c12) Gen(r *kern.Rng, tier string, idx int) *Trace {
	maxLen := tierLen(tier, 250000, 1<<20)
	var sc *scen.WScen
	switch r.Weighted(6, 2, 2) {
	case 0:
		sc = genFlateW(r, maxLen)
	case 1:
		sc = genContainerW(r, "gzip", maxLen)
	default:
		sc = genContainerW(r, "zlib", maxLen)
	}
	// data pool: h1 part + h2 part
	n1 := scen.GenLen(r, maxLen)
	n2 := scen.GenLen(r, maxLen/2)
	sc.Data.Len = n1 + n2
	h1 := genH1(r, n1)
	used := sumWrites(h1)
	// make sure h2 starts where h1's writes end: pad h1 bookkeeping with DataOff
	h2 := GenOps(r, n2, r.Pick(0, 20, 50), 60)
	if r.Pct(10) {
		// several lives
		h1 = append(h1, scen.WOp{K: "r"})
		h1 = append(h1, genH1(r, 0)...)
	}
	sc.Ops = append(append(h1, scen.WOp{K: "r"}), h2...)
	_ = used
	if r.Pct(30) {
		// a failing sink during h1
		sc.Fault = &kern.SinkFault{AtCall: 1 + r.Intn(12), Short: r.Bool()}
		sc.FaultSeg = 0
	}
	return &Trace{Property: "C12", Family: "W-reset", W: sc}
}

// splitAtLastReset derives the fresh-Writer scenario for the ops after the
// last Reset.
func splitAtLastReset(sc *scen.WScen) (fresh *scen.WScen, h1writes int, ok bool) {
	last := -1
	for i, o := range sc.Ops {
		if o.K == "r" {
			last = i
		}
	}
	if last < 0 {
		return nil, 0, false
	}
	poolLen := len(sc.Data.Bytes())
	pos := sc.DataOff
	for _, o := range sc.Ops[:last] {
		if o.K == "w" {
			n := o.N
			if pos+n > poolLen {
				n = poolLen - pos
			}
			pos += n
		}
	}
	f := *sc
	f.Ops = append([]scen.WOp{}, sc.Ops[last+1:]...)
	f.DataOff = pos
	f.Fault = nil
	f.Hdr = nil // gzip Reset restores the default header, as the stdlib does
	return &f, pos, true
}

func (c12) Exec(tr *Trace, keep bool) *Outcome {
	o := &Outcome{LevelIndep: true}
	sc := tr.W
	fresh, h1w, ok := splitAtLastReset(sc)
	feat := wFeatures(sc)
	if !ok {
		return o
	}
	rec, log := runW(sc, true, keep)
	fr, flog := runW(fresh, true, keep)
	o.fold(log, h1w > 0)
	o.fold(flog, false)
	o.Digest = wDigest(rec)
	o.Sample = fmt.Sprintf("%s %s level %d: %s", sc.Pkg, sc.Ctor, sc.Level, feat["ops"])
	if rec.Panic != "" {
		// a panic in h1 (before the last Reset) is C16's subject; after it, it is a difference
		lastReset := len(sc.Ops) - len(fresh.Ops) - 1
		if fr.Panic == "" && rec.PanicOp > lastReset {
			o.violate(tr, "C12.panic", rec.Panic, feat)
		} else {
			o.stat("h1_panicked", 1)
		}
		return o
	}
	if fr.Panic != "" || rec.CtorErr != nil {
		return o
	}
	o.stat("class_"+feat["class"], 1)
	if h1w >= 65794 {
		o.stat("h1_past_input_rollover", 1)
	}
	if sc.Fault != nil && rec.Segs[sc.FaultSeg].Sink.Failed {
		o.stat("h1_with_failed_sink", 1)
	}
	lastSeg := rec.Segs[len(rec.Segs)-1]
	a, b := lastSeg.Sink.Data, fr.Segs[0].Sink.Data
	// per-op error parity after the reset
	off := len(rec.Ops) - len(fr.Ops)
	for i := range fr.Ops {
		x, y := rec.Ops[off+i], fr.Ops[i]
		if (x.Err == nil) != (y.Err == nil) {
			o.violate(tr, "C12.error_parity", fmt.Sprintf("op %d after Reset (%s): reset Writer returned %v, fresh Writer %v", i, x.K, x.Err, y.Err), feat)
			return o
		}
	}
	if !bytes.Equal(a, b) {
		o.violate(tr, "C12.bytes", "bytes after Reset differ from a fresh Writer's: "+diffAt(a, b), feat)
		return o
	}
	// independent check that the new stream decodes to h2's data (when closed cleanly)
	if allNilOps(fr.Ops) && len(fr.Ops) > 0 && fr.Ops[len(fr.Ops)-1].K == "c" && countOps(fresh.Ops, "c") == 1 {
		var orc, det string
		if sc.Pkg == "flate" {
			orc, det, _ = checkStream(a, lastSeg.Model, dictOf(sc), 0)
		} else {
			orc, det = containerCheck(sc.Pkg, a, lastSeg.Model, dictOf(sc))
		}
		if orc != "" {
			o.violate(tr, "C12.decode", orc+": "+det, feat)
		}
	}
	return o
}

func allNilOps(ops []scen.WOpRes) bool {
	for _, o := range ops {
		if o.Err != nil {
			return false
		}
	}
	return true
}

func countOps(ops []scen.WOp, k string) int {
	n := 0
	for _, o := range ops {
		if o.K == k {
			n++
		}
	}
	return n
}

func (c12) Shrinks(tr *Trace) []*Trace {
	var out []*Trace
	for _, w := range shrinkW(tr.W) {
		if countOps(w.Ops, "r") == 0 {
			continue
		}
		c := tr.Clone()
		c.W = w
		out = append(out, c)
	}
	if tr.W.Fault != nil {
		c := tr.Clone()
		c.W.Fault = nil
		out = append(out, c)
	}
	return out
}

// ===================================================================== C14

type c14 struct{}

func init() { register(c14{}) }

func (c14) ID() string           { return "C14" }
func (c14) Runs(tier string) int { return tierLen(tier, 1500, 4000) }

func (c14) Gen(r *kern.Rng, tier string, idx int) *Trace {
	maxLen := tierLen(tier, 200000, 600000)
	if r.Pct(60) {
		maxLen = 30000
	}
	var sc *scen.WScen
	switch r.Weighted(6, 2, 2) {
	case 0:
		sc = genFlateW(r, maxLen)
	case 1:
		sc = genContainerW(r, "gzip", maxLen)
	default:
		sc = genContainerW(r, "zlib", maxLen)
	}
	ops := GenOps(r, sc.Data.Len, r.Pick(0, 20, 50), 40)
	// extra calls after the point where a failure may have happened
	for i := r.Intn(4); i > 0; i-- {
		ops = append(ops, scen.WOp{K: r.PickS("w", "f", "c"), N: r.Pick(0, 1, 100)})
	}
	// then a Reset and a short second life
	if r.Pct(60) {
		ops = append(ops, scen.WOp{K: "r"}, scen.WOp{K: "w", N: r.Pick(0, 5, 300)}, scen.WOp{K: "c"})
		sc.Data.Len += 300
	}
	sc.Ops = ops
	tr := &Trace{Property: "C14", Family: "W-fault", W: sc, Sweep: true, Stride: 1}
	if tier != "thorough" {
		tr.Stride = 0 // decided from m at run time: all k for m<=64, stratified above
	}
	return tr
}

func copyFeat(f map[string]string) map[string]string {
	c := map[string]string{}
	for k, v := range f {
		c[k] = v
	}
	return c
}

// faultRunCheck applies C14's oracles to one run with a sink fault.
func faultRunCheck(tr *Trace, o *Outcome, rec *scen.WRec, feat map[string]string) {
	sc := tr.W
	if rec.Panic != "" {
		o.violate(tr, "C14.panic", rec.Panic, feat)
		return
	}
	if rec.CanaryErr != "" {
		o.violate(tr, "C14.canary", rec.CanaryErr, feat)
	}
	seg := rec.Segs[sc.FaultSeg]
	if !seg.Sink.Failed {
		return
	}
	o.stat("sink_faults_fired", 1)
	if sc.Fault != nil && sc.Fault.Transient {
		o.stat("sink_faults_transient", 1)
	}
	k := seg.Sink.FailedAtCall
	seen := false
	for i, op := range rec.Ops {
		if op.Seg != sc.FaultSeg || op.K == "r" {
			continue
		}
		f := copyFeat(feat)
		f["op"] = op.K
		if !seen {
			if op.CallsBefore < k && k <= op.CallsAfter {
				seen = true
				f["phase"] = "failing_op"
				o.stat("fault_in_"+op.K, 1)
				if op.Err == nil {
					o.violate(tr, "C14.error_not_returned", fmt.Sprintf("sink call %d failed during op %d (%s) but the op returned nil", k, i, op.K), f)
				} else if op.Kind != "injected" {
					o.violate(tr, "C14.error_not_returned", fmt.Sprintf("sink call %d failed during op %d (%s) but the op returned a different error: %v", k, i, op.K, op.Err), f)
				}
			}
			continue
		}
		f["phase"] = "later_op"
		if op.Err == nil {
			o.violate(tr, "C14.later_call_succeeded", fmt.Sprintf("op %d (%s, %d bytes) returned nil after the sink had failed at call %d", i, op.K, op.N, k), f)
		}
		if op.CallsAfter != op.CallsBefore {
			o.violate(tr, "C14.sink_touched_after_failure", fmt.Sprintf("op %d (%s) called the sink %d more time(s) after it had failed at call %d", i, op.K, op.CallsAfter-op.CallsBefore, k), f)
		}
	}
	// second life after Reset must equal a fresh Writer
	if fresh, _, ok := splitAtLastReset(sc); ok && len(rec.Segs) > sc.FaultSeg+1 {
		fr, _ := runW(fresh, true, false)
		if fr.Panic == "" {
			lastSeg := rec.Segs[len(rec.Segs)-1]
			off := len(rec.Ops) - len(fr.Ops)
			bad := ""
			for i := range fr.Ops {
				if off+i < 0 || off+i >= len(rec.Ops) {
					continue
				}
				if (rec.Ops[off+i].Err == nil) != (fr.Ops[i].Err == nil) {
					bad = fmt.Sprintf("op %d after Reset: %v vs fresh %v", i, rec.Ops[off+i].Err, fr.Ops[i].Err)
				}
			}
			if bad == "" && !bytes.Equal(lastSeg.Sink.Data, fr.Segs[0].Sink.Data) {
				bad = "bytes after Reset differ from a fresh Writer's: " + diffAt(lastSeg.Sink.Data, fr.Segs[0].Sink.Data)
			}
			if bad != "" {
				o.violate(tr, "C14.reset_broken", bad, feat)
			}
		}
	}
}

func (c14) Exec(tr *Trace, keep bool) *Outcome {
	o := &Outcome{LevelIndep: true}
	sc := tr.W
	feat := wFeatures(sc)
	o.Sample = fmt.Sprintf("%s %s level %d data %s/%d ops %s", sc.Pkg, sc.Ctor, sc.Level, sc.Data.Kind, sc.Data.Len, feat["ops"])
	if !tr.Sweep {
		rec, log := runW(sc, true, keep)
		o.fold(log, true)
		o.Digest = wDigest(rec)
		if sc.Fault == nil {
			c14FaultFree(tr, o, rec, feat)
		} else {
			faultRunCheck(tr, o, rec, feat)
		}
		return o
	}
	// fault-free run first: counts the sink calls and must give a valid stream
	base := tr.Clone()
	base.Sweep, base.W.Fault = false, nil
	rec, log := runW(base.W, true, keep)
	o.fold(log, false)
	o.Digest = wDigest(rec)
	c14FaultFree(base, o, rec, feat)
	if rec.Panic != "" || rec.CtorErr != nil {
		return o
	}
	m := rec.Segs[0].Sink.Calls
	o.stat("workloads", 1)
	o.stat("class_"+feat["class"], 1)
	ks := sweepPositions(m, tr.Stride, 64, 24)
	if len(ks) == m {
		o.stat("workloads_with_every_k", 1)
	}
	for i, k := range ks {
		c := tr.Clone()
		c.Sweep = false
		c.W.Fault = &kern.SinkFault{AtCall: k, Short: (k+i)%3 == 0, Transient: (k+i)%4 == 1}
		c.W.FaultSeg = 0
		r2, l2 := runW(c.W, true, keep)
		o.fold(l2, r2.Segs[0].Sink.Failed)
		faultRunCheck(c, o, r2, feat)
		if len(o.Violations) > 6 {
			break
		}
	}
	return o
}

// sweepPositions returns the positions 1..m to visit: all when stride==1 or
// m<=allBelow; otherwise the first and last few plus a stratified sample.
func sweepPositions(m, stride, allBelow, sample int) []int {
	var ks []int
	if stride == 1 || m <= allBelow {
		for k := 1; k <= m; k++ {
			ks = append(ks, k)
		}
		return ks
	}
	if stride > 1 {
		for k := 1; k <= m; k += stride {
			ks = append(ks, k)
		}
		if ks[len(ks)-1] != m {
			ks = append(ks, m)
		}
		return ks
	}
	seen := map[int]bool{}
	add := func(k int) {
		if k >= 1 && k <= m && !seen[k] {
			seen[k] = true
			ks = append(ks, k)
		}
	}
	for k := 1; k <= 8; k++ {
		add(k)
		add(m - k + 1)
	}
	for i := 0; i < sample; i++ {
		add(1 + (i*m)/sample + (i*7)%((m/sample)+1))
	}
	sortInts(ks)
	return ks
}

func c14FaultFree(tr *Trace, o *Outcome, rec *scen.WRec, feat map[string]string) {
	sc := tr.W
	if rec.Panic != "" {
		o.violate(tr, "C14.panic", rec.Panic, feat)
		return
	}
	if rec.CanaryErr != "" {
		o.violate(tr, "C14.canary", rec.CanaryErr, feat)
	}
	if rec.CtorErr != nil {
		return
	}
	// "if every Write, Flush and Close returned nil, the destination has
	// received a complete valid stream": applies to the first life when it
	// consists of nil-returning ops ending in exactly one Close.
	var ops []scen.WOpRes
	for _, op := range rec.Ops {
		if op.Seg != 0 || op.K == "r" {
			break
		}
		ops = append(ops, op)
	}
	closes := 0
	for i, op := range ops {
		if op.Err != nil {
			return
		}
		if op.K == "c" {
			closes++
			if i != len(ops)-1 {
				return // calls after Close: C16's subject
			}
		}
	}
	if closes != 1 {
		return
	}
	seg := rec.Segs[0]
	var orc, det string
	if sc.Pkg == "flate" {
		orc, det, _ = checkStream(seg.Sink.Data, seg.Model, dictOf(sc), 0)
	} else {
		orc, det = containerCheck(sc.Pkg, seg.Sink.Data, seg.Model, dictOf(sc))
	}
	o.stat("fault_free_streams_checked", 1)
	if orc != "" {
		o.violate(tr, "C14.bad_stream_without_error", orc+": "+det, feat)
	}
}

func (c14) Shrinks(tr *Trace) []*Trace {
	out := shrinkTraceW(tr)
	if tr.W.Fault != nil {
		for _, k := range []int{1, tr.W.Fault.AtCall / 2, tr.W.Fault.AtCall - 1} {
			if k >= 1 && k != tr.W.Fault.AtCall {
				c := tr.Clone()
				c.W.Fault.AtCall = k
				out = append(out, c)
			}
		}
	}
	return out
}

// ===================================================================== C16

type c16 struct{}

func init() { register(c16{}) }

func (c16) ID() string { return "C16" }

var c16Alphabet = []scen.WOp{{K: "w", N: 0}, {K: "w", N: 10}, {K: "w", N: 70000}, {K: "f"}, {K: "c"}, {K: "r"}}

func c16Systematic(tier string) int {
	n := 0
	maxLen := tierLen(tier, 4, 5)
	p := 1
	for l := 1; l <= maxLen; l++ {
		p *= len(c16Alphabet)
		n += p
	}
	return n
}

func (c16) Runs(tier string) int {
	// systematic short histories + constructor table + random long ones
	return c16Systematic(tier) + 16*3 + tierLen(tier, 2500, 30000)
}

func nthHistory(idx int) []scen.WOp {
	l := 1
	p := len(c16Alphabet)
	for idx >= p {
		idx -= p
		p *= len(c16Alphabet)
		l++
	}
	ops := make([]scen.WOp, l)
	for i := 0; i < l; i++ {
		ops[i] = c16Alphabet[idx%len(c16Alphabet)]
		idx /= len(c16Alphabet)
	}
	return ops
}

func (c16) Gen(r *kern.Rng, tier string, idx int) *Trace {
	sys := c16Systematic(tier)
	var sc *scen.WScen
	switch r.Weighted(5, 3, 3) {
	case 0:
		sc = genFlateW(r, 0)
	case 1:
		sc = genContainerW(r, "gzip", 0)
		if sc.Hdr != nil && r.Pct(10) {
			sc.Hdr.Name = "badĀname" // not Latin-1: both must reject
		}
		if sc.Hdr != nil && r.Pct(5) {
			sc.Hdr.HasExtra, sc.Hdr.Extra = true, make([]byte, 65536)
		}
	default:
		sc = genContainerW(r, "zlib", 0)
	}
	sc.Data = scen.DataSpec{Kind: "text", Seed: r.Uint64(), Len: 400000}
	switch {
	case idx < sys:
		sc.Ops = nthHistory(idx)
	case idx < sys+48:
		// constructor accept/reject table
		k := idx - sys
		sc.Level = k%16 - 4
		sc.Pkg = []string{"flate", "gzip", "zlib"}[k/16]
		sc.Ctor, sc.Dict, sc.Hdr = "level", nil, nil
		if sc.Pkg == "flate" {
			sc.Ctor = "new"
		}
		sc.Ops = []scen.WOp{{K: "w", N: 10}, {K: "c"}}
	default:
		n := 1 + r.Intn(40)
		for i := 0; i < n; i++ {
			op := c16Alphabet[r.Weighted(2, 3, 1, 3, 3, 1)]
			if op.K == "w" && op.N == 10 {
				op.N = r.Pick(1, 10, 300, 5000)
			}
			sc.Ops = append(sc.Ops, op)
		}
	}
	return &Trace{Property: "C16", Family: "W-model", W: sc}
}

func (c16) Exec(tr *Trace, keep bool) *Outcome {
	o := &Outcome{LevelIndep: true}
	sc := tr.W
	feat := wFeatures(sc)
	model := *sc
	model.Guard = false
	frec, flog := runW(sc, true, keep)
	srec, slog := runW(&model, false, keep)
	o.fold(flog, len(sc.Ops) > 1)
	o.fold(slog, false)
	o.Digest = wDigest(frec)
	o.Sample = fmt.Sprintf("%s %s level %d ops %s", sc.Pkg, sc.Ctor, sc.Level, feat["ops"])
	if frec.Panic != "" {
		f := copyFeat(feat)
		if frec.PanicOp >= 0 {
			f["op"] = sc.Ops[frec.PanicOp].K
			if frec.Ops[frec.PanicOp].ClosedBefore {
				f["after_close"] = "true"
			}
		}
		o.violate(tr, "C16.panic", frec.Panic, f)
		return o
	}
	if srec.Panic != "" {
		o.stat("stdlib_model_panicked", 1)
		return o
	}
	if sc.Ctor != "4k" && (frec.CtorErr == nil) != (srec.CtorErr == nil) {
		o.violate(tr, "C16.ctor_parity", fmt.Sprintf("constructor level %d: fastgo %v, stdlib %v", sc.Level, frec.CtorErr, srec.CtorErr), feat)
		return o
	}
	if frec.CtorErr != nil || srec.CtorErr != nil {
		o.stat("ctor_rejected", 1)
		return o
	}
	o.stat("class_"+feat["class"], 1)
	firstCloseDone := map[int]bool{}
	for i, op := range frec.Ops {
		sop := srec.Ops[i]
		f := copyFeat(feat)
		f["op"] = op.K
		if op.ClosedBefore {
			f["after_close"] = "true"
		} else {
			f["after_close"] = "false"
		}
		if op.K != "r" && (op.Err == nil) != (sop.Err == nil) {
			o.violate(tr, "C16.error_parity", fmt.Sprintf("op %d (%s, after_close=%v): fastgo returned %v, stdlib %v", i, op.K, op.ClosedBefore, op.Err, sop.Err), f)
			return o
		}
		seg := frec.Segs[op.Seg]
		prevLen := 0
		if i > 0 && frec.Ops[i-1].Seg == op.Seg {
			prevLen = frec.Ops[i-1].SinkLen
		}
		if op.ClosedBefore && op.K != "r" {
			o.stat("ops_after_close", 1)
			if op.SinkLen != prevLen {
				if op.K == "c" {
					o.violate(tr, "C16.close_twice_emits", fmt.Sprintf("op %d: repeated Close emitted %d more bytes", i, op.SinkLen-prevLen), f)
				} else {
					o.violate(tr, "C16.op_after_close_emits", fmt.Sprintf("op %d (%s) after Close emitted %d bytes", i, op.K, op.SinkLen-prevLen), f)
				}
				return o
			}
		}
		if op.K == "c" && op.Err == nil && !op.ClosedBefore && !op.ErrBefore && !firstCloseDone[op.Seg] {
			firstCloseDone[op.Seg] = true
			o.stat("streams_checked_at_first_close", 1)
			out := seg.Sink.Data[:op.SinkLen]
			var orc, det string
			if sc.Pkg == "flate" {
				orc, det, _ = checkStream(out, seg.Model[:op.ModelLen], dictOf(sc), 0)
			} else {
				hdrOK := op.Seg == 0 // after Reset the header is the default one; payload check is the same
				_ = hdrOK
				orc, det = containerCheck(sc.Pkg, out, seg.Model[:op.ModelLen], dictOf(sc))
			}
			if orc != "" {
				o.violate(tr, "C16.stream_at_close", fmt.Sprintf("op %d: %s: %s", i, orc, det), f)
				return o
			}
		}
	}
	return o
}

func (c16) Shrinks(tr *Trace) []*Trace { return shrinkTraceW(tr) }

// ===================================================================== C19

type c19 struct{}

func init() { register(c19{}) }

func (c19) ID() string           { return "C19" }
func (c19) Runs(tier string) int { return tierLen(tier, 5000, 50000) }

func (c19) Gen(r *kern.Rng, tier string, idx int) *Trace {
	maxLen := tierLen(tier, 300000, 2<<20)
	sc := &scen.WScen{Pkg: "flate", Guard: false}
	if r.Pct(75) {
		sc.Ctor = "4k"
		sc.Level = r.Pick(1, 2, -1, 1, 2, -1, 3, 5, 9, -2)
	} else {
		sc.Ctor = "new"
		sc.Level = r.Pick(1, 2, -1)
	}
	w := 4096
	if sc.Ctor == "new" {
		w = 32768
	}
	d := scen.DataSpec{Seed: r.Uint64()}
	switch r.Weighted(4, 3, 2, 2, 1) {
	case 0:
		d.Kind = "copies"
		d.P1 = w + r.Pick(-2, -1, 0, 1, 2, 3)
	case 1:
		d.Kind = "edge4k"
		if w == 32768 {
			d.Kind = "edge32k"
		}
	case 2:
		d.Kind = "periodic"
		d.P1 = w + r.Pick(-1, 0, 1, 2)
	case 3:
		d.Kind = "copies"
		d.P1 = r.Pick(w/2, w*2, w*2+1, 65536, 65535, 65537, 65536+w, 65536-w)
	default:
		d = scen.GenData(r, maxLen)
	}
	d.Len = scen.GenLen(r, maxLen)
	if r.Pct(50) {
		d.Len = r.Pick(20000, 70000, 140000, 270000)
		if d.Len > maxLen {
			d.Len = maxLen
		}
	}
	sc.Data = d
	sc.Ops = GenOps(r, d.Len, r.Pick(0, 0, 10, 40), 120)
	if r.Pct(25) {
		// a reused Writer: an earlier life, Reset, then the stream that is measured
		n1 := r.Pick(0, 100, 5000, 20000, 70000)
		h1 := genH1(r, n1)
		sc.Data.Len += n1
		sc.Ops = append(append(h1, scen.WOp{K: "r"}), sc.Ops...)
	}
	return &Trace{Property: "C19", Family: "W-plain", W: sc}
}

func (c19) Exec(tr *Trace, keep bool) *Outcome {
	o := &Outcome{LevelIndep: true}
	sc := tr.W
	rec, log := runW(sc, true, keep)
	feat := wFeatures(sc)
	total := sumWrites(sc.Ops)
	o.Digest = wDigest(rec)
	o.Sample = fmt.Sprintf("flate %s level %d data %s(p1=%d)/%d ops %s", sc.Ctor, sc.Level, sc.Data.Kind, sc.Data.P1, sc.Data.Len, feat["ops"])
	limit := 32768
	if sc.Ctor == "4k" && sc.Level != 0 {
		limit = 4096
	}
	if rec.Panic != "" {
		o.fold(log, false)
		o.violate(tr, "C19.panic", rec.Panic, feat)
		return o
	}
	last := rec.Segs[len(rec.Segs)-1]
	lastStart := 0
	for i, op := range sc.Ops {
		if op.K == "r" {
			lastStart = i + 1
		}
	}
	if rec.CtorErr != nil || len(rec.Ops) != len(sc.Ops) || !allNilOps(rec.Ops[lastStart:]) || countOps(sc.Ops[lastStart:], "c") != 1 || sc.Ops[len(sc.Ops)-1].K != "c" {
		o.fold(log, false)
		return o
	}
	if lastStart > 0 {
		o.stat("runs_on_reused_writer", 1)
		total = len(last.Model)
	}
	out := last.Sink.Data
	rr := ref.Inflate(out, ref.Options{})
	o.fold(log, rr.Matches > 0 && total > limit)
	reachW(o, rr, sc, total)
	o.stat(fmt.Sprintf("window_%d", limit), 1)
	if total > 65536 {
		o.stat("runs_past_16bit_position_wrap", 1)
	}
	if rr.MaxDist > limit {
		o.violate(tr, "C19.distance", fmt.Sprintf("maximum match distance %d exceeds the %d-byte window", rr.MaxDist, limit), feat)
		return o
	}
	// decode with a reference inflater that only keeps `limit` bytes of history
	rw := ref.Inflate(out, ref.Options{Window: limit})
	if rw.Defect != nil || !rw.Complete || !bytes.Equal(rw.Out, last.Model) {
		d := "incomplete"
		if rw.Defect != nil {
			d = rw.Defect.String()
		}
		o.violate(tr, "C19.restricted_history_decode", "decoder restricted to the window fails: "+d, feat)
	}
	return o
}

func (c19) Shrinks(tr *Trace) []*Trace { return shrinkTraceW(tr) }
