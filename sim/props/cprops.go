package props

import (
	"bytes"
	sgzip "compress/gzip"
	szlib "compress/zlib"
	"encoding/binary"
	"fmt"
	"hash/adler32"
	"hash/crc32"
	"io"

	"fgverif/kern"
	"fgverif/ref"
	"fgverif/scen"
)

// ===================================================================== C06

type c06 struct{}

func init() { register(c06{}) }

func (c06) ID() string           { return "C06" }
func (c06) Runs(tier string) int { return tierLen(tier, 5000, 30000) }

func (c06) Gen(r *kern.Rng, tier string, idx int) *Trace {
	maxLen := tierLen(tier, 200000, 1<<20)
	if r.Pct(60) {
		maxLen = 30000
	}
	pkg := r.PickS("gzip", "zlib")
	sc := genContainerW(r, pkg, maxLen)
	if r.Pct(40) {
		sc.Level = allLevels[r.Intn(len(allLevels))]
	}
	if sc.Hdr != nil {
		if r.Pct(6) {
			// 512 bytes and more: the stdlib Reader refuses such strings
			rs := make([]rune, r.Pick(512, 513, 2000))
			for i := range rs {
				rs[i] = rune(1 + r.Intn(255))
			}
			sc.Hdr.Name = string(rs)
		}
		if r.Pct(4) {
			sc.Hdr.Name = "not-latin1-Ā"
		}
		if r.Pct(3) {
			sc.Hdr.Comment = "nul\x00inside"
		}
		if r.Pct(3) {
			sc.Hdr.HasExtra, sc.Hdr.Extra = true, make([]byte, 65536)
		}
	}
	n1 := sc.Data.Len
	sc.Ops = GenOps(r, n1, r.Pick(0, 0, 10, 40), 60)
	if r.Pct(25) {
		// an earlier life that is abandoned, closed twice, or hits a failing
		// destination before the Writer is reused through Reset
		sc.Ops = genH1(r, n1)
		if r.Pct(40) {
			sc.Fault = &kern.SinkFault{AtCall: 1 + r.Intn(6), Short: r.Bool()}
		}
		n := scen.GenLen(r, 20000)
		sc.Data.Len += n
		sc.Ops = append(sc.Ops, scen.WOp{K: "r"})
		sc.Ops = append(sc.Ops, GenOps(r, n, r.Pick(0, 20), 30)...)
	}
	// reuse through Reset: further members/streams
	for k := r.Pick(0, 0, 1, 2); k > 0; k-- {
		n := scen.GenLen(r, 20000)
		sc.Data.Len += n
		sc.Ops = append(sc.Ops, scen.WOp{K: "r"})
		if r.Pct(20) {
			sc.Ops = append(sc.Ops, scen.WOp{K: "r"}) // pool idiom: Reset on put, Reset again on get
		}
		sc.Ops = append(sc.Ops, GenOps(r, n, r.Pick(0, 20), 30)...)
	}
	tr := &Trace{Property: "C06", Family: "W-plain <-> R-valid across implementations", W: sc}
	// reading side schedule for the stdlib->fastgo direction
	tr.R = &scen.RScen{Pkg: pkg, Src: genSrc(r, true), Del: genDelivery(r), Reads: genReads(r)}
	if sc.Hdr != nil && r.Pct(25) {
		// header strings around the limits of the encoding: 7-bit / Latin-1 / beyond
		edge := []string{"\u0080", "a\u0080b", "\u007f", "\u0080\u0081", "\u00ff", "x\u00ffy", "\u00a0", "\u0081", "\u007f\u0080", "e\u0301", "\u0100", "a\u0100"}
		if r.Bool() {
			sc.Hdr.Name = edge[r.Intn(len(edge))]
		} else {
			sc.Hdr.Comment = edge[r.Intn(len(edge))]
		}
	}
	return tr
}

type contRead struct {
	hdr  scen.GzHdr
	out  []byte
	kind string
	err  error
}

// stdRead reads one container with the standard library.
func stdReadContainer(pkg string, b, dict []byte) contRead {
	var c contRead
	switch pkg {
	case "gzip":
		z, err := sgzip.NewReader(bytes.NewReader(b))
		if err != nil {
			c.err, c.kind = err, scen.ErrKind(err)
			return c
		}
		z.Multistream(false)
		c.hdr = scen.GzHdr{Name: z.Name, Comment: z.Comment, OS: int(z.OS), SetOS: true}
		if z.Extra != nil {
			c.hdr.HasExtra, c.hdr.Extra = true, z.Extra
		}
		if !z.ModTime.IsZero() {
			c.hdr.MTime = z.ModTime.Unix()
		}
		out, err := readAllCap(z, 256<<20)
		if err == nil {
			err = io.EOF
		}
		c.out, c.err, c.kind = out, err, scen.ErrKind(err)
	case "zlib":
		var z io.ReadCloser
		var err error
		if dict != nil {
			z, err = szlib.NewReaderDict(bytes.NewReader(b), dict)
		} else {
			z, err = szlib.NewReader(bytes.NewReader(b))
		}
		if err != nil {
			c.err, c.kind = err, scen.ErrKind(err)
			return c
		}
		out, err := readAllCap(z, 256<<20)
		if err == nil {
			err = io.EOF
		}
		c.out, c.err, c.kind = out, err, scen.ErrKind(err)
	}
	return c
}

func hdrDiff(a, b scen.GzHdr) string {
	if a.Name != b.Name {
		return fmt.Sprintf("Name %q vs %q", clipS(a.Name), clipS(b.Name))
	}
	if a.Comment != b.Comment {
		return fmt.Sprintf("Comment %q vs %q", clipS(a.Comment), clipS(b.Comment))
	}
	if a.HasExtra != b.HasExtra || !bytes.Equal(a.Extra, b.Extra) {
		return fmt.Sprintf("Extra present=%v len %d vs present=%v len %d", a.HasExtra, len(a.Extra), b.HasExtra, len(b.Extra))
	}
	if a.MTime != b.MTime {
		return fmt.Sprintf("ModTime %d vs %d", a.MTime, b.MTime)
	}
	if a.OS != b.OS {
		return fmt.Sprintf("OS %d vs %d", a.OS, b.OS)
	}
	return ""
}

func clipS(s string) string {
	if len(s) > 40 {
		return s[:40] + "..."
	}
	return s
}

func (c06) Exec(tr *Trace, keep bool) *Outcome {
	o := &Outcome{LevelIndep: true}
	sc := tr.W
	feat := wFeatures(sc)
	model := *sc
	frec, flog := runW(sc, true, keep)
	srec, slog := runW(&model, false, keep)
	o.fold(flog, sumWrites(sc.Ops) > 0)
	o.fold(slog, false)
	o.Digest = wDigest(frec)
	o.Sample = fmt.Sprintf("%s %s level %d hdr=%v data %s/%d ops %s", sc.Pkg, sc.Ctor, sc.Level, sc.Hdr != nil, sc.Data.Kind, sc.Data.Len, feat["ops"])
	if frec.Panic != "" {
		o.violate(tr, "C06.panic", frec.Panic, feat)
		return o
	}
	if srec.Panic != "" || frec.CtorErr != nil || srec.CtorErr != nil {
		return o
	}
	o.stat("class_"+feat["class"], 1)
	o.stat("pkg_"+sc.Pkg, 1)
	// Writers must reject exactly what the stdlib rejects
	rejectedSeg := -1
	for i := range frec.Ops {
		if sc.Fault != nil {
			break // histories with an injected sink fault: only the containers after Reset are judged
		}
		if frec.Ops[i].Seg == rejectedSeg {
			continue // the rest of a life both Writers refused is C16's subject; the lives after Reset are judged again
		}
		if frec.Ops[i].K != "r" && (frec.Ops[i].Err == nil) != (srec.Ops[i].Err == nil) {
			o.violate(tr, "C06.error_parity", fmt.Sprintf("op %d (%s): fastgo %v, stdlib %v", i, frec.Ops[i].K, frec.Ops[i].Err, srec.Ops[i].Err), feat)
			return o
		}
		if frec.Ops[i].Err != nil {
			o.stat("lives_rejected_by_both", 1)
			rejectedSeg = frec.Ops[i].Seg
		}
	}
	dict := dictOf(sc)
	for si, seg := range frec.Segs {
		// only segments that were closed exactly once, with nothing after the Close
		var ops []scen.WOpRes
		for _, op := range frec.Ops {
			if op.Seg == si && op.K != "r" {
				ops = append(ops, op)
			}
		}
		if len(ops) == 0 || ops[len(ops)-1].K != "c" {
			continue
		}
		nClose := 0
		clean := true
		for _, op := range ops {
			if op.K == "c" {
				nClose++
			}
			if op.Err != nil {
				clean = false
			}
		}
		for _, op := range srec.Ops {
			if op.Seg == si && op.Err != nil {
				clean = false
			}
		}
		if nClose != 1 || !clean || seg.Sink.Failed {
			continue
		}
		f := copyFeat(feat)
		f["segment"] = fmt.Sprint(si)
		fb, sb := seg.Sink.Data, srec.Segs[si].Sink.Data
		o.stat("containers_checked", 1)
		if si > 0 {
			o.stat("containers_after_reset", 1)
		}
		// header fields: what the stdlib Writer produces for the same history is the model
		m := stdReadContainer(sc.Pkg, sb, dict)
		if m.kind != "EOF" {
			// the standard library cannot read its own Writer's output (header
			// string of 512 bytes or more): outside what its Reader represents
			o.stat("skipped_header_not_readable_by_stdlib", 1)
			continue
		}
		// direction A: fastgo Writer -> stdlib Reader
		a := stdReadContainer(sc.Pkg, fb, dict)
		if a.kind != "EOF" {
			o.violate(tr, "C06.payload", fmt.Sprintf("segment %d: the standard library cannot read fastgo's %s output: %v after %d bytes", si, sc.Pkg, a.err, len(a.out)), f)
			return o
		}
		if !bytes.Equal(a.out, seg.Model) {
			o.violate(tr, "C06.payload", fmt.Sprintf("segment %d: stdlib reads a different payload from fastgo's output: %s", si, diffAt(a.out, seg.Model)), f)
			return o
		}
		if sc.Pkg == "gzip" {
			if d := hdrDiff(a.hdr, m.hdr); d != "" {
				o.violate(tr, "C06.header_field", fmt.Sprintf("segment %d: header written by fastgo vs by the stdlib (both read with compress/gzip): %s", si, d), f)
				return o
			}
			// and against the requested header for the first member
			if si == 0 && sc.Hdr != nil {
				want := *sc.Hdr
				if !want.SetOS {
					want.OS = 255
				}
				want.SetOS = true
				if !want.HasExtra || len(want.Extra) == 0 {
					// an empty Extra is not written; the reader reports nil
					want.HasExtra, want.Extra = a.hdr.HasExtra, a.hdr.Extra
				}
				if d := hdrDiff(a.hdr, want); d != "" {
					o.violate(tr, "C06.header_field", fmt.Sprintf("segment %d: header read back differs from the one set: %s", si, d), f)
					return o
				}
			}
		}
		// trailer
		switch sc.Pkg {
		case "gzip":
			if len(fb) < 8 {
				o.violate(tr, "C06.trailer", "gzip output shorter than a trailer", f)
				return o
			}
			crc := binary.LittleEndian.Uint32(fb[len(fb)-8:])
			sz := binary.LittleEndian.Uint32(fb[len(fb)-4:])
			if crc != crc32.ChecksumIEEE(seg.Model) || sz != uint32(len(seg.Model)) {
				o.violate(tr, "C06.trailer", fmt.Sprintf("segment %d: gzip trailer crc=%08x size=%d, payload crc=%08x size=%d", si, crc, sz, crc32.ChecksumIEEE(seg.Model), len(seg.Model)), f)
				return o
			}
			if p := ref.ParseGzip(fb); !p.OK || len(p.Members) != 1 {
				o.violate(tr, "C06.trailer", fmt.Sprintf("segment %d: reference gzip parser: ok=%v bad=%q members=%d (bytes after the trailer?)", si, p.OK, p.Bad, len(p.Members)), f)
				return o
			}
		case "zlib":
			if len(fb) < 6 {
				o.violate(tr, "C06.trailer", "zlib output shorter than header+trailer", f)
				return o
			}
			ad := binary.BigEndian.Uint32(fb[len(fb)-4:])
			if ad != adler32.Checksum(seg.Model) {
				o.violate(tr, "C06.trailer", fmt.Sprintf("segment %d: zlib trailer %08x, payload adler32 %08x", si, ad, adler32.Checksum(seg.Model)), f)
				return o
			}
			if p := ref.ParseZlib(fb, dict); !p.OK || p.End != len(fb) {
				o.violate(tr, "C06.trailer", fmt.Sprintf("segment %d: reference zlib parser: ok=%v bad=%q end=%d of %d", si, p.OK, p.Bad, p.End, len(fb)), f)
				return o
			}
		}
		// direction B: stdlib Writer -> fastgo Reader (through the drawn source schedule)
		rs := cloneR(tr.R)
		rs.In = scen.InputSpec{Parts: []scen.StreamSpec{{Enc: "lit", Lit: sb}}}
		if dict != nil {
			d := *sc.Dict
			rs.Dict = &d
		}
		if sc.Pkg == "gzip" {
			rs.NoMulti, rs.Members = true, 1
		}
		rrec, rlog := runR(rs, true, keep)
		o.fold(rlog, true)
		if rrec.Panic != "" {
			o.violate(tr, "C06.panic", rrec.Panic, f)
			return o
		}
		if rrec.Kind != "EOF" || !bytes.Equal(rrec.Out, srec.Segs[si].Model) {
			o.violate(tr, "C06.payload", fmt.Sprintf("segment %d: fastgo %s Reader on the stdlib Writer's output: %v after %d bytes: %s", si, sc.Pkg, rrec.Err, len(rrec.Out), diffAt(rrec.Out, srec.Segs[si].Model)), f)
			return o
		}
		if sc.Pkg == "gzip" && rrec.Hdr != nil {
			if d := hdrDiff(*rrec.Hdr, m.hdr); d != "" {
				o.violate(tr, "C06.header_field", fmt.Sprintf("segment %d: header of the stdlib Writer's output read by fastgo vs by the stdlib: %s", si, d), f)
				return o
			}
		}
	}
	return o
}

func (c06) Shrinks(tr *Trace) []*Trace {
	out := shrinkTraceW(tr)
	for _, r := range shrinkR(tr.R) {
		c := tr.Clone()
		r.In = tr.R.In
		c.R = r
		out = append(out, c)
	}
	return out
}

// ===================================================================== C07

type c07 struct{}

func init() { register(c07{}) }

func (c07) ID() string           { return "C07" }
func (c07) Runs(tier string) int { return tierLen(tier, 72, 200) }

func (c07) Gen(r *kern.Rng, tier string, idx int) *Trace {
	pkg := r.PickS("gzip", "zlib")
	sc := &scen.RScen{Pkg: pkg}
	small := r.Pct(75)
	maxLen := 300
	if !small {
		maxLen = 6000
	}
	nm := 1
	if pkg == "gzip" {
		nm = r.Pick(1, 1, 2, 3)
	}
	for i := 0; i < nm; i++ {
		sp := genStream(r, pkg, maxLen, 0)
		if sp.W != nil && sp.W.Hdr != nil {
			// keep headers short so that the whole container can be swept
			if len(sp.W.Hdr.Name) > 8 {
				sp.W.Hdr.Name = sp.W.Hdr.Name[:8]
			}
			if len(sp.W.Hdr.Comment) > 8 {
				sp.W.Hdr.Comment = "c"
			}
			if len(sp.W.Hdr.Extra) > 8 {
				sp.W.Hdr.Extra = sp.W.Hdr.Extra[:8]
			}
		}
		if sp.Synth != nil && small {
			sp.Synth.OutLen = 1 + r.Intn(300)
			sp.Synth.MaxBlocks = r.Pick(1, 2, 3)
		}
		sc.In.Parts = append(sc.In.Parts, sp)
	}
	if pkg == "zlib" && r.Pct(25) {
		// a container with a preset dictionary (FDICT, dictionary id in the header)
		w := genContainerW(r, "zlib", maxLen)
		w.Ctor = "dict"
		d := scen.GenData(r, 2000)
		if d.Len < 4 {
			d.Len = 40
		}
		w.Dict = &d
		w.Level = r.Pick(-2, 0, 1, 2) // delegated dictionary Writer; levels that avoid KF-C01-dict-stored's trigger are not needed: the container is validated against the stdlib below
		w.Ops = GenOps(r, w.Data.Len, 0, 10)
		sc.In.Parts = []scen.StreamSpec{{Enc: "std", W: w}}
		sc.Dict = &d
	}
	sc.Src = genSrc(r, true)
	sc.Del = genDelivery(r)
	sc.Reads = genReads(r)
	if pkg == "gzip" && r.Pct(40) {
		// member by member on a buffered source: the other way a gzip file is read
		sc.NoMulti = true
		sc.Src = scen.SrcSpec{Kind: "bufio", Buf: bufSizes[r.Intn(len(bufSizes))]}
	}
	tr := &Trace{Property: "C07", Family: "R-malformed/R-trunc on containers", R: sc, Sweep: true, Stride: 1}
	if tier != "thorough" {
		tr.Stride = 0
	}
	return tr
}

// c07Check applies the oracles to one corrupted/truncated container.
func c07Check(tr *Trace, o *Outcome, rec *scen.RRec, orig []byte, payload []byte, keep bool) {
	sc := tr.R
	feat := rFeatures(sc)
	if rec.Panic != "" {
		o.violate(tr, "C07.panic", rec.Panic, feat)
		return
	}
	if rec.Livelock {
		o.violate(tr, "C07.hang", "more than 64 consecutive Reads returned (0, nil)", feat)
		return
	}
	in := rec.Built.Bytes
	truncAt := -1
	if len(in) < len(orig) && bytes.Equal(in, orig[:len(in)]) {
		truncAt = len(in)
	}
	if rec.Kind == "EOF" {
		// some accepting reference must agree
		std := cloneR(sc)
		std.Src, std.Del, std.Reads = scen.SrcSpec{Kind: "bytes.Reader"}, kern.Delivery{}, nil
		srec, _ := runR(std, false, false)
		if srec.Kind == "EOF" && bytes.Equal(srec.Out, rec.Out) {
			o.stat("eof_agreed_by_stdlib", 1)
		} else {
			ok := false
			why := ""
			switch sc.Pkg {
			case "gzip":
				p := ref.ParseGzip(in)
				var cat []byte
				for _, m := range p.Members {
					cat = append(cat, m.Payload...)
				}
				ok = p.OK && bytes.Equal(cat, rec.Out)
				why = fmt.Sprintf("reference gzip parser: ok=%v truncated=%v bad=%q members=%d", p.OK, p.Truncated, p.Bad, len(p.Members))
			case "zlib":
				var dict []byte
				if sc.Dict != nil {
					dict = sc.Dict.Bytes()
				}
				p := ref.ParseZlib(in, dict)
				ok = p.OK && bytes.Equal(p.Payload, rec.Out)
				why = fmt.Sprintf("reference zlib parser: ok=%v truncated=%v bad=%q", p.OK, p.Truncated, p.Bad)
			}
			if ok {
				o.stat("eof_agreed_by_reference_parser", 1)
			} else {
				orc := "C07.eof_bad_checksum"
				if bytes.Equal(rec.Out, payload) {
					orc = "C07.eof_on_damaged_container"
				}
				o.violate(tr, orc, fmt.Sprintf("Reader returned io.EOF with %d bytes (true payload %d bytes, equal=%v); compress/%s on the same input: %s; %s", len(rec.Out), len(payload), bytes.Equal(rec.Out, payload), sc.Pkg, srec.Kind, why), feat)
				return
			}
		}
	}
	if truncAt >= 0 {
		feat["truncated"] = "true"
		// bytes handed out must be a prefix of the true payload
		if !bytes.HasPrefix(payload, rec.Out) {
			o.violate(tr, "C07.trunc_not_prefix", fmt.Sprintf("container cut at byte %d of %d: the %d bytes handed out are not a prefix of the payload: %s", truncAt, len(orig), len(rec.Out), diffAt(rec.Out, payload)), feat)
			return
		}
		// ending: what the property states, decided with the reference parser
		boundary := truncAt == 0
		if sc.Pkg == "gzip" {
			p := ref.ParseGzip(in)
			boundary = boundary || (p.OK && p.Rest == len(in))
		}
		if boundary && sc.Pkg == "gzip" {
			if rec.Kind != "EOF" {
				o.violate(tr, "C07.trunc_error_kind", fmt.Sprintf("gzip input cut exactly between members (at %d) must read as a shorter valid file, got %v", truncAt, rec.Err), feat)
			}
			return
		}
		if rec.Kind != "UnexpectedEOF" {
			o.violate(tr, "C07.trunc_error_kind", fmt.Sprintf("container cut inside a member (at byte %d of %d) ended with %v after %d bytes, want unexpected EOF", truncAt, len(orig), rec.Err, len(rec.Out)), feat)
			return
		}
	}
	if rec.Err != nil && rec.ResetErr == nil {
		if ok, why := afterOK(rec); !ok && rec.CtorErr == nil {
			o.violate(tr, "C07.not_sticky", why, feat)
		}
	}
}

func (c07) Exec(tr *Trace, keep bool) *Outcome {
	o := &Outcome{}
	sc := tr.R
	o.Sample = rSample(sc)
	clean := cloneR(sc)
	clean.In.Mut = nil
	bt := clean.In.Build()
	if bt.BuildErr != "" {
		return o
	}
	o.LevelIndep = !bt.FastMade
	// true payload: the standard library on the undamaged container
	std := cloneR(clean)
	std.Src, std.Del, std.Reads = scen.SrcSpec{Kind: "bytes.Reader"}, kern.Delivery{}, nil
	srec, _ := runR(std, false, false)
	if srec.Kind != "EOF" || srec.Panic != "" {
		o.stat("skipped_stdlib_rejects_input", 1)
		return o
	}
	payload := srec.Out
	if !tr.Sweep {
		rec, log := runR(sc, true, keep)
		o.fold(log, true)
		o.Digest = rDigest(rec)
		c07Check(tr, o, rec, bt.Bytes, payload, keep)
		return o
	}
	n := len(bt.Bytes)
	o.stat("containers", 1)
	o.stat("pkg_"+sc.Pkg, 1)
	if len(sc.In.Parts) > 1 {
		o.stat("multi_member_containers", 1)
	}
	h := uint64(0)
	run := func(mut []scen.Mutation, kind string) bool {
		c := tr.Clone()
		c.Sweep = false
		c.R.In.Mut = mut
		rec, log := runR(c.R, true, keep)
		o.fold(log, true)
		o.stat("inj_"+kind, 1)
		o.stat("ended_"+kindClass(rec.Kind), 1)
		h = h*0x100000001b3 ^ rDigest(rec)
		c07Check(c, o, rec, bt.Bytes, payload, keep)
		return len(o.Violations) > 4
	}
	// the undamaged container reads to EOF with the payload
	{
		c := tr.Clone()
		c.Sweep = false
		rec, log := runR(c.R, true, keep)
		o.fold(log, true)
		if rec.Panic == "" && (rec.Kind != "EOF" || !bytes.Equal(rec.Out, payload)) {
			o.violate(c, "C07.undamaged_rejected", fmt.Sprintf("undamaged container: %v after %d of %d bytes", rec.Err, len(rec.Out), len(payload)), rFeatures(sc))
			return o
		}
	}
	full := n <= 420 || tr.Stride == 1
	if full {
		o.stat("containers_with_every_bit_and_cut", 1)
	}
	// every truncation point
	for _, k := range sweepPositions(n, tr.Stride, 420, 80) {
		if run([]scen.Mutation{{K: "trunc", Pos: k - 1}}, "truncation") {
			return o
		}
	}
	// every single-bit flip
	bits := n * 8
	if full && bits <= 420*8*4 {
		for b := 0; b < bits; b++ {
			if run([]scen.Mutation{{K: "flip", Pos: b}}, "bit_flip") {
				return o
			}
		}
	} else {
		for _, k := range sweepPositions(bits, 0, 0, 300) {
			if run([]scen.Mutation{{K: "flip", Pos: k - 1}}, "bit_flip") {
				return o
			}
		}
	}
	// sampled double flips and byte substitutions (positions derived from the trace seed)
	rr := kern.NewRng(kern.Mix(tr.Seed, "c07multi", uint64(tr.Index)))
	for i := 0; i < 60; i++ {
		if rr.Bool() {
			if run([]scen.Mutation{{K: "flip", Pos: rr.Intn(bits)}, {K: "flip", Pos: rr.Intn(bits)}}, "double_flip") {
				return o
			}
		} else {
			if run([]scen.Mutation{{K: "set", Pos: rr.Intn(n), Val: rr.Intn(256)}}, "byte_substitution") {
				return o
			}
		}
	}
	o.Digest = h
	return o
}

func (c07) Shrinks(tr *Trace) []*Trace {
	var out []*Trace
	for _, t := range shrinkTraceR(tr) {
		if len(t.R.In.Mut) == 0 && len(tr.R.In.Mut) > 0 {
			continue
		}
		if len(t.R.In.Parts) == 1 && t.R.In.Parts[0].Enc == "lit" && tr.R.In.Parts[0].Enc != "lit" {
			continue // keep the encoder: the true payload must stay known
		}
		out = append(out, t)
	}
	return out
}

// ===================================================================== C08

type c08 struct{}

func init() { register(c08{}) }

func (c08) ID() string           { return "C08" }
func (c08) Runs(tier string) int { return tierLen(tier, 6000, 40000) }

func (c08) Gen(r *kern.Rng, tier string, idx int) *Trace {
	sc := &scen.RScen{Pkg: "gzip"}
	nm := r.Pick(1, 2, 2, 3, 4, 6)
	for i := 0; i < nm; i++ {
		maxLen := r.Pick(0, 100, 5000, 5000, 80000)
		sp := genStream(r, "gzip", maxLen, 30)
		if sp.W != nil && r.Pct(30) {
			sp.W.Data.Len = 0 // empty member
			sp.W.Ops = []scen.WOp{{K: "c"}}
		}
		sc.In.Parts = append(sc.In.Parts, sp)
	}
	if r.Pct(35) {
		d := scen.DataSpec{Kind: r.PickS("zeros", "rand", "text"), Seed: r.Uint64(), Len: r.Pick(1, 2, 3, 9, 10, 100, 5000)}
		sc.In.Suffix = &d
	}
	sc.Src = scen.SrcSpec{Kind: "bufio", Buf: bufSizes[r.Intn(len(bufSizes))]}
	if r.Pct(15) {
		sc.Src = genSrc(r, false)
	}
	sc.Del = genDelivery(r)
	sc.Reads = genReads(r)
	if r.Pct(50) {
		// member by member: the statement is about a buffered source
		sc.NoMulti = true
		sc.Src = scen.SrcSpec{Kind: "bufio", Buf: bufSizes[r.Intn(len(bufSizes))]}
		if sc.In.Suffix != nil && r.Pct(70) {
			sc.Members = nm
		}
	}
	if r.Pct(20) {
		sc.Ctor = "reset"
	}
	if sc.NoMulti && r.Pct(40) {
		sc.ExtraBetween = r.Pick(1, 1, 2, 3)
	}
	if r.Pct(25) {
		// a pooled Reader: an earlier file read member by member (or not), then Reset onto this one
		p := genPrior(r, "gzip")
		p.NoMulti = r.Pct(70)
		sc.Prior = []scen.Prior{p}
	}
	return &Trace{Property: "C08", Family: "R-multi", R: sc}
}

func (c08) Exec(tr *Trace, keep bool) *Outcome {
	o := &Outcome{}
	sc := tr.R
	rec, log := runR(sc, true, keep)
	feat := rFeatures(sc)
	feat["mode"] = "default"
	if sc.NoMulti {
		feat["mode"] = "multistream_false"
	}
	o.Digest = rDigest(rec)
	o.InputHash = inputHash(rec)
	o.LevelIndep = rec.Built != nil && !rec.Built.FastMade
	o.Sample = rSample(sc) + " mode=" + feat["mode"]
	if rec.Built.BuildErr != "" {
		o.fold(log, false)
		return o
	}
	o.fold(log, len(sc.In.Parts) > 1)
	if rec.Panic != "" {
		o.violate(tr, "C08.panic", rec.Panic, feat)
		return o
	}
	o.stat("mode_"+feat["mode"], 1)
	o.stat(fmt.Sprintf("members_%d", len(sc.In.Parts)), 1)
	if sc.In.Suffix != nil {
		o.stat("runs_with_trailing_data", 1)
	}
	// model: the standard library's Reader in the same mode on the same bytes,
	// plus the payloads the encoders were given
	std := cloneR(sc)
	std.Src, std.Del = scen.SrcSpec{Kind: "bufio", Buf: 4096}, kern.Delivery{}
	srec, _ := runR(std, false, false)
	if srec.Panic != "" {
		return o
	}
	var concat []byte
	known := true
	for _, p := range rec.Built.Payloads {
		if p == nil {
			known = false
		}
		concat = append(concat, p...)
	}
	if !sc.NoMulti {
		if known && !bytes.HasPrefix(rec.Out, concat) && !(rec.Kind != "EOF" && bytes.HasPrefix(concat, rec.Out)) {
			o.violate(tr, "C08.concat", "default mode output is not the concatenation of the member payloads: "+diffAt(rec.Out, concat), feat)
			return o
		}
		if !bytes.Equal(rec.Out, srec.Out) || kindClass(rec.Kind) != kindClass(srec.Kind) {
			o.violate(tr, "C08.concat", fmt.Sprintf("default mode: fastgo %d bytes then %v; compress/gzip %d bytes then %v: %s", len(rec.Out), rec.Err, len(srec.Out), srec.Err, diffAt(rec.Out, srec.Out)), feat)
			return o
		}
		if sc.In.Suffix == nil && rec.Kind != "EOF" && srec.Kind == "EOF" {
			o.violate(tr, "C08.concat", fmt.Sprintf("default mode: members only, yet the Reader ended with %v", rec.Err), feat)
		}
		return o
	}
	// member by member
	if rec.BetweenBad != "" && srec.BetweenBad == "" {
		o.violate(tr, "C08.eof_not_sticky", rec.BetweenBad+" (compress/gzip keeps returning (0, io.EOF))", feat)
		return o
	}
	if len(rec.Members) != len(srec.Members) {
		o.violate(tr, "C08.member_payload", fmt.Sprintf("Multistream(false): fastgo saw %d members (last %v), compress/gzip %d (last %v)", len(rec.Members), rec.Err, len(srec.Members), srec.Err), feat)
		return o
	}
	for i := range rec.Members {
		a, b := rec.Members[i], srec.Members[i]
		if !bytes.Equal(a.Out, b.Out) || kindClass(a.Kind) != kindClass(b.Kind) {
			o.violate(tr, "C08.member_payload", fmt.Sprintf("member %d: fastgo %d bytes then %v; compress/gzip %d bytes then %v", i, len(a.Out), a.Err, len(b.Out), b.Err), feat)
			return o
		}
		if known && i < len(rec.Built.Payloads) && a.Kind == "EOF" && !bytes.Equal(a.Out, rec.Built.Payloads[i]) {
			o.violate(tr, "C08.member_payload", fmt.Sprintf("member %d payload differs from what was written: %s", i, diffAt(a.Out, rec.Built.Payloads[i])), feat)
			return o
		}
		if d := hdrDiff(a.Hdr, b.Hdr); d != "" {
			o.violate(tr, "C08.member_header", fmt.Sprintf("member %d header: %s", i, d), feat)
			return o
		}
	}
	if kindClass(rec.Kind) != kindClass(srec.Kind) {
		o.violate(tr, "C08.reset_error", fmt.Sprintf("after the last member: fastgo %v, compress/gzip %v", rec.Err, srec.Err), feat)
		return o
	}
	if sc.In.Suffix == nil && sc.Members == 0 && rec.Kind != "EOF" && srec.Kind == "EOF" {
		o.violate(tr, "C08.reset_error", fmt.Sprintf("Reset after the last member must return io.EOF when nothing follows, got %v", rec.Err), feat)
		return o
	}
	if rec.Kind == "EOF" && srec.Kind == "EOF" && rec.ResetErr == nil {
		if ok, why := afterOK(rec); !ok {
			o.violate(tr, "C08.eof_not_sticky", why, feat)
			return o
		}
	}
	if sc.Members > 0 && sc.In.Suffix != nil && rec.Kind == "EOF" && rec.SrcRestKnown && sc.Src.Kind == "bufio" {
		o.stat("trailing_data_position_checked", 1)
		if want := sc.In.Suffix.Bytes(); !bytes.Equal(rec.SrcRest, want) {
			o.violate(tr, "C08.trailing_consumed", fmt.Sprintf("after the last member's io.EOF the buffered source holds %d bytes, the trailing data is %d bytes: %s", len(rec.SrcRest), len(want), diffAt(rec.SrcRest, want)), feat)
		}
	}
	return o
}

func (c08) Shrinks(tr *Trace) []*Trace {
	var out []*Trace
	for _, t := range shrinkTraceR(tr) {
		if len(t.R.In.Parts) == 1 && t.R.In.Parts[0].Enc == "lit" && tr.R.In.Parts[0].Enc != "lit" {
			continue
		}
		if t.R.Members > len(t.R.In.Parts) {
			t.R.Members = len(t.R.In.Parts)
		}
		out = append(out, t)
	}
	return out
}
