package props

import (
	"bufio"
	"bytes"
	"fmt"
	"io"
	"runtime"

	"fgverif/kern"
	"fgverif/ref"
	"fgverif/scen"
)

// PipeScen: a producer task (Writer with Flush points) feeds a gated pipe, a
// consumer task (Reader) drains it; the driver releases the produced bytes
// one flush point at a time and checks at every quiescence what the consumer
// has been able to return.
type PipeScen struct {
	W       *scen.WScen   `json:"w"`   // producer history (Write/Flush ops, one Close at the end)
	Enc     string        `json:"enc"` // "std" | "fast"
	Src     scen.SrcSpec  `json:"src"` // how the consumer's Reader sees the pipe: plain | bufio(size)
	Chunks  []int         `json:"chunks,omitempty"`
	Reads   []int         `json:"reads,omitempty"`
	NoMulti bool          `json:"no_multi,omitempty"` // gzip: Multistream(false)
	StopAt  int           `json:"stop_at"`            // index of the flush point after which the source misbehaves; -1 = none
	After   string        `json:"after,omitempty"`    // "block" | "error" | "garbage" | "garbage_joined"
	Garbage scen.DataSpec `json:"garbage,omitempty"`
	// Synth: instead of a Writer history the producer sends a synthesised
	// stream (block shapes no Writer of fastgo or the stdlib emits, e.g. a
	// non-empty stored FINAL block); flush points are its sync markers.
	Synth     *ref.SynthParams `json:"synth,omitempty"`
	SynthSeed uint64           `json:"synth_seed,omitempty"`
}

type MultiScen struct {
	Tasks []MultiTask `json:"tasks"`
}

type MultiTask struct {
	W *scen.WScen `json:"w,omitempty"`
	R *scen.RScen `json:"r,omitempty"`
}

type synthRngP struct{ r *kern.Rng }

func (s synthRngP) Intn(n int) int { return s.r.Intn(n) }

type flushPoint struct {
	off   int
	model int // bytes of data written before this point
	final bool
}

type pipeResult struct {
	points    []flushPoint
	model     []byte
	out       []byte
	err       error
	kind      string
	done      bool
	reads     int
	panicC    string
	panicP    string
	prodErr   string
	verdicts  []string // per checked point: "" ok or a description
	violation string
	oracle    string
	atPoint   int
	released  int
	postFired bool
	aborted   string
}

// runPipe executes the scenario. fast selects the implementation of the
// consumer's Reader (true = fastgo).
func runPipe(ps *PipeScen, sched kern.SchedSpec, fastReader bool, keep bool) (*pipeResult, *kern.Log, *kern.Sim) {
	log := kern.NewLog(keep)
	sim := kern.NewSim(log, sched)
	res := &pipeResult{atPoint: -1}
	pipe := &kern.Pipe{Log: log, Chunks: ps.Chunks}
	data := ps.W.Data.Bytes()
	injected := &kern.InjectedError{Tag: "pipe"}

	prod := sim.Go("producer", func(t *kern.Task) {
		defer func() {
			if r := recover(); r != nil {
				if r == kern.ErrKilled {
					panic(r)
				}
				res.panicP = fmt.Sprint(r)
			}
		}()
		pipe.Producer = t
		if ps.Synth != nil {
			sy := ref.Synthesize(synthRngP{kern.NewRng(ps.SynthSeed)}, *ps.Synth)
			rr := ref.Inflate(sy.Stream, ref.Options{})
			if !rr.Complete || rr.EndByte != len(sy.Stream) {
				res.prodErr = "synthesised stream is not one complete stream"
				return
			}
			res.model = rr.Out
			for i, off := range rr.SyncPoints {
				res.points = append(res.points, flushPoint{off: off, model: rr.OutAtSync[i]})
			}
			res.points = append(res.points, flushPoint{off: len(sy.Stream), model: len(rr.Out), final: true})
			for pos := 0; pos < len(sy.Stream); {
				n := 1 + (pos*7+13)%977
				if pos+n > len(sy.Stream) {
					n = len(sy.Stream) - pos
				}
				pipe.Write(sy.Stream[pos : pos+n])
				pos += n
			}
			return
		}
		w, err := scen.NewWriter(ps.W, pipe, ps.Enc == "fast")
		if err != nil {
			res.prodErr = err.Error()
			return
		}
		pos := 0
		for _, op := range ps.W.Ops {
			var e error
			switch op.K {
			case "w":
				n := op.N
				if pos+n > len(data) {
					n = len(data) - pos
				}
				cb := append([]byte{}, data[pos:pos+n]...)
				_, e = w.Write(cb)
				for i := range cb {
					cb[i] = 0xEE // the caller reuses its buffer
				}
				res.model = append(res.model, data[pos:pos+n]...)
				pos += n
			case "f":
				e = w.Flush()
				if e == nil {
					res.points = append(res.points, flushPoint{off: len(pipe.Buf), model: len(res.model)})
				}
			case "c":
				e = w.Close()
				if e == nil {
					res.points = append(res.points, flushPoint{off: len(pipe.Buf), model: len(res.model), final: true})
				}
			}
			if e != nil {
				res.prodErr = e.Error()
				return
			}
			t.Yield()
		}
	})
	cons := sim.Go("consumer", func(t *kern.Task) {
		defer func() {
			if r := recover(); r != nil {
				if r == kern.ErrKilled {
					panic(r)
				}
				buf := make([]byte, 4096)
				res.panicC = fmt.Sprintf("%v\n%s", r, buf[:runtime.Stack(buf, false)])
			}
			res.done = true
		}()
		pipe.Consumer = t
		var src io.Reader = struct{ io.Reader }{pipe}
		if ps.Src.Kind == "bufio" {
			src = bufio.NewReaderSize(src, ps.Src.Buf)
		}
		var dict []byte
		if ps.W.Ctor == "dict" && ps.W.Dict != nil {
			dict = ps.W.Dict.Bytes()
		}
		rd, multi, err := scen.OpenReader(ps.W.Pkg, fastReader, src, dict)
		if err != nil {
			res.err, res.kind = err, scen.ErrKind(err)
			return
		}
		if ps.W.Pkg == "gzip" && ps.NoMulti {
			multi(false)
		}
		si, zero := 0, 0
		var scratch []byte
		for {
			sz := 65536
			if len(ps.Reads) > 0 {
				sz = ps.Reads[si%len(ps.Reads)]
				si++
				if sz < 1 {
					sz = 1
				}
			}
			if cap(scratch) < sz {
				scratch = make([]byte, sz)
			}
			buf := scratch[:sz]
			n, e := rd.Read(buf)
			res.reads++
			res.out = append(res.out, buf[:n]...)
			if e != nil {
				res.err, res.kind = e, scen.ErrKind(e)
				return
			}
			if n == 0 {
				zero++
				if zero > 64 {
					res.aborted = "livelock: 64 empty reads"
					return
				}
			} else {
				zero = 0
			}
			if res.reads > 200000+8*len(res.model) {
				res.aborted = "read cap"
				return
			}
		}
	})
	_ = prod
	_ = cons
	next := 0  // next point to release
	phase := 0 // 0 = release next, 1 = released, consumer running/settled -> check, 2 = post-prefix behaviour injected
	// evaluate is the invariant: with everything up to point `next` delivered
	// and the consumer unable to proceed (blocked on the source, or finished),
	// it must have returned exactly the data written before that point.
	joinedAt := -1
	release := func(i int) {
		pipe.Released = res.points[i].off
		res.released = pipe.Released
		stopAt := ps.StopAt
		if stopAt >= len(res.points) {
			stopAt = len(res.points) - 1
		}
		if ps.After == "garbage_joined" && i == stopAt {
			// unrelated bytes follow the flush point in the very same delivery
			pipe.Garbage, pipe.Join = ps.Garbage.Bytes(), true
			res.postFired = true
			joinedAt = i
		}
	}
	evaluate := func() bool {
		p := res.points[next]
		res.atPoint = next
		want := res.model[:p.model]
		if next == joinedAt && !p.final {
			// whatever the Reader makes of the unrelated bytes, the data before the flush point is due first
			if bytes.HasPrefix(res.out, want) {
				return true
			}
			if bytes.HasPrefix(want, res.out) {
				res.oracle, res.violation = "lost_before_garbage", fmt.Sprintf("the delivery that completed flush point %d (%d data bytes) also carried unrelated bytes; the Reader returned only %d bytes (err=%v, done=%v)", next, p.model, len(res.out), res.err, res.done)
				return false
			}
			res.oracle, res.violation = "wrong_bytes", fmt.Sprintf("at flush point %d (unrelated bytes in the same delivery): output is not the data written: %s", next, diffAt(res.out, want))
			return false
		}
		if !bytes.HasPrefix(want, res.out) && !bytes.HasPrefix(res.out, want) {
			res.oracle, res.violation = "wrong_bytes", fmt.Sprintf("at flush point %d (offset %d): output is not the data written: %s", next, p.off, diffAt(res.out, want))
			return false
		}
		if len(res.out) < len(want) {
			if res.done && res.err != nil && res.kind != "EOF" {
				res.oracle, res.violation = "wrong_error", fmt.Sprintf("at flush point %d the Reader gave up with %v after %d of %d bytes although the delivered prefix is valid", next, res.err, len(res.out), len(want))
				return false
			}
			res.oracle, res.violation = "withheld_at_flush", fmt.Sprintf("source delivered everything up to flush point %d (%d compressed bytes, %d data bytes) and now stalls; the Reader returned only %d bytes and waits for more input", next, p.off, p.model, len(res.out))
			if p.final {
				res.oracle = "withheld_at_end"
			}
			return false
		}
		if len(res.out) > len(want) {
			res.oracle, res.violation = "wrong_bytes", fmt.Sprintf("at flush point %d the Reader returned %d bytes, only %d were written before it", next, len(res.out), len(want))
			return false
		}
		return true
	}
	sim.OnQuiescent = func() bool {
		// only the consumer can be blocked here (the producer never blocks)
		if phase == 2 {
			return false
		}
		if phase == 0 {
			if next >= len(res.points) {
				return false
			}
			release(next)
			phase = 1
			return true
		}
		if !evaluate() {
			phase = 3
			return false
		}
		if next == joinedAt {
			phase = 3
			return false
		}
		stopAt := ps.StopAt
		if stopAt >= len(res.points) {
			stopAt = len(res.points) - 1
		}
		if next == stopAt {
			switch ps.After {
			case "error":
				pipe.PostErr = injected
				res.postFired = true
				phase = 2
				return true
			case "garbage":
				pipe.Garbage = ps.Garbage.Bytes()
				res.postFired = true
				phase = 2
				return true
			default:
				phase = 3
				return false // stalls forever
			}
		}
		next++
		if next >= len(res.points) {
			phase = 3
			return false
		}
		release(next)
		phase = 1
		return true
	}
	sim.Run()
	if phase == 1 && next < len(res.points) && res.panicC == "" {
		// the consumer finished (EOF or error) without blocking again
		evaluate()
	}
	return res, log, sim
}

// ===================================================================== C11

type c11 struct{}

func init() { register(c11{}) }

func (c11) ID() string           { return "C11" }
func (c11) Runs(tier string) int { return tierLen(tier, 5000, 40000) }

func (c11) Gen(r *kern.Rng, tier string, idx int) *Trace {
	maxLen := tierLen(tier, 120000, 600000)
	if r.Pct(60) {
		maxLen = 20000
	}
	pkg := []string{"flate", "flate", "gzip", "zlib"}[r.Intn(4)]
	var w *scen.WScen
	if pkg == "flate" {
		w = &scen.WScen{Pkg: "flate", Ctor: "new", Level: allLevels[r.Intn(len(allLevels))], Data: scen.GenData(r, maxLen)}
		if r.Pct(50) {
			w.Level = r.Pick(-2, -1, 1, 2)
		}
	} else {
		w = genContainerW(r, pkg, maxLen)
		if w.Ctor == "dict" {
			w.Ctor, w.Dict = "level", nil
		}
	}
	w.Ops = GenOps(r, w.Data.Len, r.Pick(20, 50, 100), 40)
	if r.Pct(15) {
		// a flush point a few bytes past a point where a 64 KiB / 32 KiB history wraps
		n1 := r.Pick(65536, 65536, 98304, 131072, 32768) + r.Intn(16)
		w.Data.Len = n1 + r.Pick(0, 10, 3000)
		if r.Pct(50) {
			w.Data.Kind = r.PickS("zeros", "alpha", "text", "rand")
		}
		w.Ops = []scen.WOp{{K: "w", N: n1}, {K: "f"}, {K: "w", N: w.Data.Len - n1}, {K: "c"}}
	}
	ps := &PipeScen{W: w, Enc: r.PickS("std", "fast"), StopAt: -1}
	if pkg == "flate" && r.Pct(15) {
		// a synthesised stream: stored/fixed/dynamic blocks in any order, sync
		// markers in between, any block type as the final one
		sp := genSynthParams(r, 20000)
		sp.SyncPct = r.Pick(30, 60, 100)
		sp.MaxBlocks = r.Pick(2, 4, 8)
		if r.Pct(50) {
			sp.TypeWeights = [3]int{3, 1, 1} // stored blocks, also as the last block
		}
		ps.Synth, ps.SynthSeed = sp, r.Uint64()
		w.Ops = nil
	}
	nflush := 0
	for _, o := range w.Ops {
		if o.K == "f" || o.K == "c" {
			nflush++
		}
	}
	if ps.Synth != nil {
		nflush = 1 + r.Intn(3) // upper bound unknown before synthesis; StopAt is clamped at run time
	}
	switch r.Weighted(3, 3, 2, 2, 2) {
	case 4: // unrelated bytes in the same delivery as the end of the prefix
		ps.StopAt, ps.After = r.Intn(nflush), "garbage_joined"
		ps.Garbage = scen.DataSpec{Kind: r.PickS("rand", "zeros", "text", "allbytes"), Seed: r.Uint64(), Len: r.Pick(1, 8, 100, 5000)}
		if r.Pct(40) {
			ps.Garbage = scen.DataSpec{Lit: []byte{0xff, 0xff, 0xff, 0xff, 0xff, 0xff, 0xff, 0xff}, Len: 8} // reserved block type
		}
	case 0: // run through all points, stall at the end without EOF
		ps.StopAt, ps.After = nflush-1, "block"
	case 1:
		ps.StopAt, ps.After = r.Intn(nflush), "block"
	case 2:
		ps.StopAt, ps.After = r.Intn(nflush), "error"
	default:
		ps.StopAt, ps.After = r.Intn(nflush), "garbage"
		ps.Garbage = scen.DataSpec{Kind: r.PickS("rand", "zeros", "text"), Seed: r.Uint64(), Len: r.Pick(1, 8, 100, 5000)}
	}
	switch r.Weighted(4, 5) {
	case 0:
		ps.Src = scen.SrcSpec{Kind: "plain"}
	default:
		ps.Src = scen.SrcSpec{Kind: "bufio", Buf: bufSizes[r.Intn(len(bufSizes))]}
	}
	ps.Chunks = genDelivery(r).Chunks
	ps.Reads = genReads(r)
	if pkg == "gzip" {
		ps.NoMulti = r.Pct(60)
	}
	return &Trace{Property: "C11", Family: "P: producer -> gated pipe -> consumer", Pipe: ps,
		Sched: kern.SchedSpec{Policy: r.PickS("rand", "rand", "rr", "seq"), Seed: r.Uint64(), SwitchPct: r.Pick(10, 50, 90)}}
}

func (c11) Exec(tr *Trace, keep bool) *Outcome {
	o := &Outcome{LevelIndep: tr.Pipe.Enc != "fast"}
	ps := tr.Pipe
	res, log, sim := runPipe(ps, tr.Sched, true, keep)
	feat := wFeatures(ps.W)
	feat["srckind"] = ps.Src.Kind
	feat["after"] = ps.After
	feat["enc"] = ps.Enc
	feat["mode"] = "n/a"
	if ps.W.Pkg == "gzip" {
		feat["mode"] = "default"
		if ps.NoMulti {
			feat["mode"] = "multistream_false"
		}
	}
	o.fold(log, len(res.points) > 1)
	o.stat("task_switches", sim.Switches)
	o.Sample = fmt.Sprintf("%s level %d enc=%s data %s/%d ops %s; src %s/%d chunks %v reads %v; stop at point %d then %s; sched %s", ps.W.Pkg, ps.W.Level, ps.Enc, ps.W.Data.Kind, ps.W.Data.Len, feat["ops"], ps.Src.Kind, ps.Src.Buf, clip(ps.Chunks), clip(ps.Reads), ps.StopAt, ps.After, tr.Sched.Policy)
	h := kern.HashBytes(res.out)
	o.Digest = h*0x100000001b3 ^ kern.HashBytes([]byte(kindClass(res.kind)))
	if res.panicC != "" {
		o.violate(tr, "C11.panic", res.panicC, feat)
		return o
	}
	if res.panicP != "" || res.prodErr != "" {
		o.stat("producer_failed", 1)
		return o
	}
	if sim.Aborted != "" || res.aborted != "" {
		o.violate(tr, "C11.hang", "step bound exceeded: "+sim.Aborted+res.aborted, feat)
		return o
	}
	o.stat("flush_points_checked", res.atPoint+1)
	o.stat("after_"+ps.After, 1)
	if res.postFired {
		o.stat("post_prefix_faults_fired", 1)
	}
	if res.oracle != "" {
		feat["point_final"] = "false"
		if res.atPoint >= 0 && res.points[res.atPoint].final {
			feat["point_final"] = "true"
		}
		o.violate(tr, "C11."+res.oracle, res.violation, feat)
		return o
	}
	if res.atPoint < 0 {
		return o
	}
	p := res.points[res.atPoint]
	want := res.model[:p.model]
	// end of stream: io.EOF is due once the whole stream (incl. trailer) was delivered
	if p.final && res.atPoint <= ps.StopAt {
		eofDue := !(ps.W.Pkg == "gzip" && !ps.NoMulti)
		if eofDue && ps.After == "block" && res.kind != "EOF" {
			o.violate(tr, "C11.withheld_at_end", fmt.Sprintf("the whole stream (%d bytes) was delivered and the source stalls; all %d data bytes were returned but io.EOF was not (Reader state: err=%v, done=%v)", p.off, len(res.out), res.err, res.done), feat)
			return o
		}
		if eofDue && ps.After != "block" && res.kind != "EOF" {
			o.violate(tr, "C11.wrong_error", fmt.Sprintf("the whole stream was delivered, then the source %s; the Reader ended with %v instead of io.EOF", map[string]string{"error": "failed", "garbage": "delivered unrelated bytes", "garbage_joined": "had delivered unrelated bytes together with its end"}[ps.After], res.err), feat)
			return o
		}
	}
	if ps.After == "error" && res.postFired && !p.final {
		if !bytes.Equal(res.out, want) {
			o.violate(tr, "C11.wrong_bytes", "after the source error the output differs from the data before the flush point: "+diffAt(res.out, want), feat)
			return o
		}
		if res.kind != "injected" {
			o.violate(tr, "C11.wrong_error", fmt.Sprintf("source failed after flush point %d; the Reader ended with %v instead of the source's error", res.atPoint, res.err), feat)
		}
	}
	if (ps.After == "garbage" || ps.After == "garbage_joined") && res.postFired {
		if len(res.out) < len(want) || !bytes.Equal(res.out[:len(want)], want) {
			o.violate(tr, "C11.wrong_bytes", "unrelated bytes after the flush point changed data already due: "+diffAt(res.out, want), feat)
		}
	}
	return o
}

func (c11) Shrinks(tr *Trace) []*Trace {
	var out []*Trace
	ps := tr.Pipe
	for _, w := range shrinkW(ps.W) {
		if countOps(w.Ops, "c") != 1 || w.Ops[len(w.Ops)-1].K != "c" {
			continue
		}
		c := tr.Clone()
		c.Pipe.W = w
		n := 0
		for _, o := range w.Ops {
			if o.K == "f" || o.K == "c" {
				n++
			}
		}
		if c.Pipe.StopAt >= n {
			c.Pipe.StopAt = n - 1
		}
		out = append(out, c)
	}
	if len(ps.Chunks) > 0 {
		c := tr.Clone()
		c.Pipe.Chunks = nil
		out = append(out, c)
	}
	if len(ps.Reads) > 0 {
		c := tr.Clone()
		c.Pipe.Reads = nil
		out = append(out, c)
	}
	if ps.StopAt > 0 {
		c := tr.Clone()
		c.Pipe.StopAt--
		out = append(out, c)
	}
	if ps.After != "block" {
		c := tr.Clone()
		c.Pipe.After = "block"
		out = append(out, c)
	}
	if tr.Sched.Policy != "seq" {
		c := tr.Clone()
		c.Sched = kern.SchedSpec{Policy: "seq"}
		out = append(out, c)
	}
	if ps.Enc == "fast" {
		c := tr.Clone()
		c.Pipe.Enc = "std"
		out = append(out, c)
	}
	return out
}
