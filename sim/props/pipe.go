package props

// PipeScen and MultiScen are defined with C11 / C17.
type PipeScen struct{}
type MultiScen struct{}
