package props

import (
	"fmt"

	"fgverif/kern"
	"fgverif/ref"
	"fgverif/scen"
)

func runR(sc *scen.RScen, fast bool, keep bool) (*scen.RRec, *kern.Log) {
	log := kern.NewLog(keep)
	sim := kern.NewSim(log, kern.SchedSpec{})
	var rec *scen.RRec
	sim.Solo("r", func(t *kern.Task) { rec = scen.RunR(t, log, sc, fast) })
	return rec, log
}

func genSynthParams(r *kern.Rng, maxOut int) *ref.SynthParams {
	p := &ref.SynthParams{}
	if maxOut < 1 {
		maxOut = 1
	}
	switch r.Weighted(4, 3, 2, 1) {
	case 0:
		p.OutLen = 1 + r.Intn(3000)
	case 1:
		p.OutLen = 1 + r.Intn(40000)
	case 2:
		p.OutLen = r.Pick(32768, 65536, 66000, 70000, 100000, 140000) + r.Intn(100)
	default:
		p.OutLen = 1 + r.Intn(maxOut)
	}
	if p.OutLen > maxOut {
		p.OutLen = 1 + r.Intn(maxOut)
	}
	p.MaxBlocks = r.Pick(1, 1, 2, 3, 5, 10, 40)
	if r.Pct(5) {
		p.MaxBlocks = 1000
		p.OutLen = 2000 + r.Intn(4000)
	}
	p.Alphabet = r.Pick(1, 2, 3, 16, 64, 256, 256)
	p.MatchPct = r.Pick(0, 5, 20, 50, 80, 95)
	p.FarPct = r.Pick(0, 0, 10, 50, 100)
	p.TypeWeights = [3]int{r.Pick(0, 1, 1, 3), r.Pick(0, 1, 1, 3), r.Pick(0, 1, 2, 4)}
	if p.TypeWeights[0]+p.TypeWeights[1]+p.TypeWeights[2] == 0 {
		p.TypeWeights[2] = 1
	}
	p.Shape = r.Intn(4)
	p.EmptyPct = r.Pick(0, 0, 5, 30)
	p.SyncPct = r.Pick(0, 0, 10, 50)
	if r.Pct(15) && maxOut >= 70000 {
		// block ends right around the points where a 64 KiB / 32 KiB history wraps
		p.AimOut = r.Pick(65536, 65536, 65536, 98304, 131072, 32768)
		p.AimOff = r.Range(-6, 6)
		p.MaxBlocks = r.Pick(3, 4, 6)
		p.OutLen = p.AimOut + 2000
		p.EmptyPct, p.SyncPct = 0, 0
		p.Alphabet = r.Pick(1, 2, 3, 16)
		if p.AimOut+4000 > maxOut {
			p.AimOut, p.AimOff = 0, 0
		}
	}
	return p
}

// genStdW draws a Writer history used as an encoder.
func genEncW(r *kern.Rng, pkg string, maxLen int) *scen.WScen {
	var sc *scen.WScen
	if pkg == "flate" {
		sc = &scen.WScen{Pkg: "flate", Ctor: "new", Level: allLevels[r.Intn(len(allLevels))]}
		sc.Data = scen.GenData(r, maxLen)
	} else {
		sc = genContainerW(r, pkg, maxLen)
		if sc.Ctor == "dict" {
			sc.Ctor, sc.Dict = "level", nil
		}
		if r.Pct(50) {
			sc.Level = allLevels[r.Intn(len(allLevels))]
		}
	}
	sc.Ops = GenOps(r, sc.Data.Len, r.Pick(0, 0, 0, 10, 40), 60)
	return sc
}

// genStream draws one valid stream spec for the package. fastPct is the
// chance that fastgo's own Writer is the encoder (bytes then depend on the
// acceleration level).
func genStream(r *kern.Rng, pkg string, maxLen int, fastPct int) scen.StreamSpec {
	if r.Pct(45) {
		sp := scen.StreamSpec{Enc: "synth", Synth: genSynthParams(r, maxLen), SynthSeed: r.Uint64()}
		if pkg != "flate" {
			sp.Wrap = pkg
		}
		if pkg == "gzip" && r.Pct(50) {
			sp.WrapFlags = r.Intn(32)
		}
		return sp
	}
	enc := "std"
	if r.Pct(fastPct) {
		enc = "fast"
	}
	return scen.StreamSpec{Enc: enc, W: genEncW(r, pkg, maxLen)}
}

var bufSizes = []int{16, 17, 24, 25, 32, 64, 100, 328, 329, 512, 1024, 4095, 4096, 4097, 8192, 65536, 1 << 20}

func genSrc(r *kern.Rng, readerKinds bool) scen.SrcSpec {
	switch r.Weighted(5, 3, 1) {
	case 0:
		return scen.SrcSpec{Kind: "bufio", Buf: bufSizes[r.Intn(len(bufSizes))]}
	case 1:
		return scen.SrcSpec{Kind: "plain"}
	default:
		if readerKinds {
			return scen.SrcSpec{Kind: r.PickS("bytes.Reader", "bytes.Buffer", "strings.Reader", "bytereader")}
		}
		return scen.SrcSpec{Kind: "plain"}
	}
}

func genDelivery(r *kern.Rng) kern.Delivery {
	d := kern.Delivery{EOFWithData: r.Pct(30)}
	switch r.Weighted(3, 2, 3, 2) {
	case 0: // everything asked for
	case 1:
		d.Chunks = []int{1}
	case 2:
		n := 1 + r.Intn(12)
		for i := 0; i < n; i++ {
			d.Chunks = append(d.Chunks, r.Pick(1, 2, 3, 7, 8, 9, 24, 25, 100, 327, 328, 329, 1000, 4095, 4096, 4097, 0))
		}
	default:
		n := 1 + r.Intn(6)
		for i := 0; i < n; i++ {
			d.Chunks = append(d.Chunks, 1+r.Intn(300))
		}
	}
	return d
}

func genReads(r *kern.Rng) []int {
	switch r.Weighted(4, 2, 4) {
	case 0:
		return nil
	case 1:
		return []int{1}
	default:
		n := 1 + r.Intn(8)
		var s []int
		for i := 0; i < n; i++ {
			s = append(s, r.Pick(1, 2, 3, 8, 100, 257, 258, 259, 274, 275, 1000, 4096, 32768, 65536, 70000))
		}
		return s
	}
}

// aimedChunks returns a delivery whose first refill boundary falls inside the
// header (or just around the end) of a chosen block of the stream.
func aimedChunks(r *kern.Rng, stream []byte) []int {
	rr := ref.Inflate(stream, ref.Options{MaxOut: 8 << 20})
	if len(rr.Blocks) == 0 {
		return []int{1}
	}
	b := rr.Blocks[r.Intn(len(rr.Blocks))]
	lo, hi := int(b.StartBit/8), int(b.HdrEndBit/8)+1
	if r.Pct(30) && b.EndBit > 0 {
		lo, hi = int(b.EndBit/8)-2, int(b.EndBit/8)+2
	}
	if lo < 0 {
		lo = 0
	}
	if hi <= lo {
		hi = lo + 1
	}
	p := lo + r.Intn(hi-lo+1)
	var ch []int
	if p > 0 {
		ch = append(ch, p)
	}
	for i := r.Intn(6); i > 0; i-- {
		ch = append(ch, 1+r.Intn(3))
	}
	ch = append(ch, r.Pick(0, 1, 5, 400))
	return ch
}

func rFeatures(sc *scen.RScen) map[string]string {
	f := map[string]string{"pkg": sc.Pkg, "srckind": sc.Src.Kind, "ctor": sc.Ctor}
	if sc.Ctor == "" {
		f["ctor"] = "new"
	}
	if sc.Src.Kind == "bufio" {
		if sc.Src.Buf < 4096 {
			f["bufclass"] = "small"
		} else {
			f["bufclass"] = "large"
		}
	}
	f["prior"] = fmt.Sprint(len(sc.Prior))
	trunc := false
	for _, m := range sc.In.Mut {
		if m.K == "trunc" {
			trunc = true
		}
	}
	f["truncated"] = fmt.Sprint(trunc)
	return f
}

func rSample(sc *scen.RScen) string {
	var parts []string
	for _, p := range sc.In.Parts {
		switch p.Enc {
		case "synth":
			parts = append(parts, fmt.Sprintf("synth(out~%d,blocks<=%d,shape%d,fault=%q)", p.Synth.OutLen, p.Synth.MaxBlocks, p.Synth.Shape, p.Synth.Fault))
		case "lit":
			parts = append(parts, fmt.Sprintf("lit(%d bytes)", len(p.Lit)))
		default:
			parts = append(parts, fmt.Sprintf("%s(%s L%d %s/%d)", p.Enc, p.W.Pkg, p.W.Level, p.W.Data.Kind, p.W.Data.Len))
		}
	}
	return fmt.Sprintf("%s reader, src %s/%d ctor=%q, input %v mut=%d, chunks %v eof_with_data=%v, reads %v, prior=%d", sc.Pkg, sc.Src.Kind, sc.Src.Buf, sc.Ctor, parts, len(sc.In.Mut), clip(sc.Del.Chunks), sc.Del.EOFWithData, clip(sc.Reads), len(sc.Prior))
}

func clip(a []int) []int {
	if len(a) > 8 {
		return a[:8]
	}
	return a
}

// ------------------------------------------------------------ R shrinker

func cloneR(sc *scen.RScen) *scen.RScen {
	t := &Trace{R: sc}
	return t.Clone().R
}

func shrinkIn(in scen.InputSpec, bt *scen.Built) (out []scen.InputSpec) {
	cl := func() scen.InputSpec {
		t := &Trace{R: &scen.RScen{In: in}}
		return t.Clone().R.In
	}
	allLit := len(in.Parts) == 1 && in.Parts[0].Enc == "lit" && in.Parts[0].Wrap == "" && len(in.Mut) == 0 && in.Suffix == nil
	defer func() {
		// literalise last (the exact bytes, no encoder involved): structured
		// shrinking is tried first because it keeps the trace readable
		if !allLit && bt != nil && bt.BuildErr == "" && len(bt.Bytes) <= 1<<16 {
			out = append(out, scen.InputSpec{Parts: []scen.StreamSpec{{Enc: "lit", Lit: append([]byte{}, bt.Bytes...)}}})
		}
	}()
	if allLit {
		b := in.Parts[0].Lit
		n := len(b)
		for _, k := range []int{n / 2, n - n/4, n - 8, n - 1} {
			if k >= 0 && k < n {
				out = append(out, scen.InputSpec{Parts: []scen.StreamSpec{{Enc: "lit", Lit: append([]byte{}, b[:k]...)}}})
			}
		}
		return out
	}
	if len(in.Parts) > 1 {
		for i := range in.Parts {
			c := cl()
			c.Parts = append(c.Parts[:i], c.Parts[i+1:]...)
			out = append(out, c)
		}
	}
	for i := range in.Mut {
		c := cl()
		c.Mut = append(c.Mut[:i], c.Mut[i+1:]...)
		out = append(out, c)
	}
	if in.Suffix != nil {
		c := cl()
		c.Suffix = nil
		out = append(out, c)
		for _, d := range shrinkData(*in.Suffix) {
			c := cl()
			c.Suffix = &d
			out = append(out, c)
		}
	}
	for i, p := range in.Parts {
		if p.W != nil {
			for _, w := range shrinkW(p.W) {
				c := cl()
				c.Parts[i].W = w
				out = append(out, c)
			}
		}
		if p.Synth != nil {
			for _, n := range []int{p.Synth.OutLen / 2, p.Synth.OutLen - 1} {
				if n >= 1 && n < p.Synth.OutLen {
					c := cl()
					c.Parts[i].Synth.OutLen = n
					out = append(out, c)
				}
			}
			if p.Synth.MaxBlocks > 1 {
				c := cl()
				c.Parts[i].Synth.MaxBlocks = p.Synth.MaxBlocks / 2
				out = append(out, c)
			}
			if p.Synth.EmptyPct > 0 || p.Synth.SyncPct > 0 {
				c := cl()
				c.Parts[i].Synth.EmptyPct, c.Parts[i].Synth.SyncPct = 0, 0
				out = append(out, c)
			}
		}
	}
	return out
}

func shrinkR(sc *scen.RScen) []*scen.RScen {
	var out []*scen.RScen
	if len(sc.Prior) > 0 {
		for i := range sc.Prior {
			c := cloneR(sc)
			c.Prior = append(c.Prior[:i], c.Prior[i+1:]...)
			out = append(out, c)
		}
		for i := range sc.Prior {
			bt := sc.Prior[i].In.Build()
			for _, in := range shrinkIn(sc.Prior[i].In, bt) {
				c := cloneR(sc)
				c.Prior[i].In = in
				out = append(out, c)
			}
			if sc.Prior[i].Take > 0 {
				c := cloneR(sc)
				c.Prior[i].Take /= 2
				out = append(out, c)
			}
			if len(sc.Prior[i].Reads) > 0 {
				c := cloneR(sc)
				c.Prior[i].Reads = nil
				out = append(out, c)
			}
		}
	}
	if len(sc.Del.Chunks) > 0 {
		c := cloneR(sc)
		c.Del.Chunks = nil
		out = append(out, c)
		if len(sc.Del.Chunks) > 1 {
			c := cloneR(sc)
			c.Del.Chunks = c.Del.Chunks[:len(c.Del.Chunks)/2]
			out = append(out, c)
		}
	}
	if sc.Del.EOFWithData {
		c := cloneR(sc)
		c.Del.EOFWithData = false
		out = append(out, c)
	}
	if len(sc.Reads) > 0 {
		c := cloneR(sc)
		c.Reads = nil
		out = append(out, c)
		if len(sc.Reads) > 1 {
			c := cloneR(sc)
			c.Reads = c.Reads[:len(c.Reads)/2]
			out = append(out, c)
		}
	}
	if sc.Src.Kind != "bytes.Reader" && sc.Src.Kind != "plain" {
		c := cloneR(sc)
		c.Src = scen.SrcSpec{Kind: "plain"}
		out = append(out, c)
	}
	if sc.Src.Kind == "bufio" && sc.Src.Buf != 4096 {
		c := cloneR(sc)
		c.Src.Buf = 4096
		out = append(out, c)
	}
	if sc.Ctor == "reset" {
		c := cloneR(sc)
		c.Ctor = ""
		out = append(out, c)
	}
	bt := sc.In.Build()
	for _, in := range shrinkIn(sc.In, bt) {
		c := cloneR(sc)
		c.In = in
		out = append(out, c)
	}
	return out
}

func shrinkTraceR(tr *Trace) []*Trace {
	var out []*Trace
	for _, r := range shrinkR(tr.R) {
		c := tr.Clone()
		c.R = r
		out = append(out, c)
	}
	return out
}
