package props

// Meta is what the evidence file says about a property's check.
type Meta struct {
	Category    string // exploration | fault_enumeration
	Rule        string
	Assumptions []string
	Simulated   []string
	Real        []string
	// CrossLevel: digests of level-independent runs must agree across levels.
	CrossLevel bool
}

var commonReal = []string{"all of fastgo (Go and assembly at the forced acceleration level)", "bufio", "compress/flate, compress/gzip, compress/zlib as reference models", "hash/crc32, hash/adler32"}
var commonSim = []string{"destination io.Writer (SimSink)", "source io.Reader (SimSource, delivery schedule, faults)", "caller call sequence", "task scheduler (C11, C17)"}

var commonAssume = []string{
	"the reference inflater (sim/ref) is correct; it is cross-checked against compress/flate in setup",
	"compress/flate, compress/gzip and compress/zlib of the installed Go toolchain are correct reference models",
	"a clean batch is sampling evidence, not proof",
}

var Metas = map[string]Meta{
	"C01": {Category: "exploration", Rule: "one run = one Writer history (constructor, level, window, dict, data spec, Write/Flush partition, Close) into an accepting simulated sink; non-trivial = constructor accepted and at least one byte written; distinct = distinct schedule signature (sequence of op kinds, sink-call size buckets and outcomes)"},
	"C09": {Category: "exploration", Rule: "one run = two Writers fed the same data and Flush positions with different Write partitions; non-trivial = the two partitions differ and data is non-empty; distinct = distinct schedule signature of the first history"},
	"C10": {Category: "exploration", Rule: "one run = one Writer history with the prefix invariant evaluated at every acknowledged Flush; non-trivial = at least one Flush returned nil; distinct = distinct schedule signature"},
	"C12": {Category: "exploration", Rule: "one run = history h1 (possibly abandoned, failed, closed), Reset, history h2, compared with a fresh Writer running h2; non-trivial = h1 wrote at least one byte; distinct = distinct schedule signature"},
	"C14": {Category: "fault_enumeration", Rule: "for each sampled workload the sink fails at call k for every k (thorough, and quick when the fault-free run makes <= 64 calls; otherwise first/last 8 and a stratified sample); one evaluation = one (workload, k) run; non-trivial = the injected fault actually fired; distinct = distinct schedule signature"},
	"C16": {Category: "exploration", Rule: "all histories over {Write(0), Write(small), Write(70000), Flush, Close, Reset} up to length 4 (5 thorough), the constructor level table -4..11, then random histories up to length 40, each in lock-step with the stdlib Writer; non-trivial = more than one operation; distinct = distinct schedule signature"},
	"C19": {Category: "exploration", Rule: "one run = one Writer history with data built around the window edge; non-trivial = the output contains matches and the input is longer than the window; distinct = distinct schedule signature"},
}

func init() {
	for k, m := range Metas {
		m.Assumptions = append(append([]string{}, commonAssume...), m.Assumptions...)
		m.Simulated = commonSim
		m.Real = commonReal
		Metas[k] = m
	}
}
