package props

// Meta is what the evidence file says about a property's check.
type Meta struct {
	Category    string // exploration | fault_enumeration
	Rule        string
	Assumptions []string
	Simulated   []string
	Real        []string
	// CrossLevel: digests of level-independent runs must agree across levels.
	CrossLevel bool
}

var commonReal = []string{"all of fastgo (Go and assembly at the forced acceleration level)", "bufio", "compress/flate, compress/gzip, compress/zlib as reference models", "hash/crc32, hash/adler32"}
var commonSim = []string{"destination io.Writer (SimSink)", "source io.Reader (SimSource, delivery schedule, faults)", "caller call sequence", "task scheduler (C11, C17)"}

var commonAssume = []string{
	"the reference inflater (sim/ref) is correct; it is cross-checked against compress/flate in setup",
	"compress/flate, compress/gzip and compress/zlib of the installed Go toolchain are correct reference models",
	"a clean batch is sampling evidence, not proof",
}

var Metas = map[string]Meta{
	"C01": {Category: "exploration", Rule: "every 197th run index is a length sweep (same setting and data for 400 (thorough 800) consecutive input lengths, half of them started shortly before the emitted size crosses a multiple of 8 KiB); every 193rd is a content sweep (same shape, 40..600 consecutive data seeds: dense far copies, deep-histogram kinds headtail/dyadic; or one burst of maximal-width tokens moved across the 8 KiB output hand-over in 2-byte steps); otherwise one run = one Writer history (constructor, level, window, dict, data spec, Write/Flush partition, Close) into an accepting simulated sink; non-trivial = constructor accepted and at least one byte written; distinct = distinct schedule signature (sequence of op kinds, sink-call size buckets and outcomes)"},
	"C09": {Category: "exploration", Rule: "one run = two Writers fed the same data and Flush positions with different Write partitions; non-trivial = the two partitions differ and data is non-empty; distinct = distinct schedule signature of the first history"},
	"C10": {Category: "exploration", Rule: "every 199th run index is a length sweep (Write(L), Flush, Close for 300 (thorough 600) consecutive L); otherwise one run = one Writer history with the prefix invariant evaluated at every acknowledged Flush; non-trivial = at least one Flush returned nil; distinct = distinct schedule signature"},
	"C12": {Category: "exploration", Rule: "one run = history h1 (possibly abandoned, failed, closed), Reset, history h2, compared with a fresh Writer running h2; non-trivial = h1 wrote at least one byte; distinct = distinct schedule signature"},
	"C14": {Category: "fault_enumeration", Rule: "for each sampled workload the sink fails at call k for every k (thorough, and quick when the fault-free run makes <= 64 calls; otherwise first/last 8 and a stratified sample); one evaluation = one (workload, k) run; non-trivial = the injected fault actually fired; distinct = distinct schedule signature"},
	"C16": {Category: "exploration", Rule: "all histories over {Write(0), Write(small), Write(70000), Flush, Close, Reset} up to length 4 (5 thorough), the constructor level table -4..11, then random histories up to length 40, each in lock-step with the stdlib Writer; non-trivial = more than one operation; distinct = distinct schedule signature"},
	"C02": {Category: "exploration", Rule: "every 3989th run index is a phase sweep (4144 streams of [fresh byte + 258 zeros] units behind a head swept over 259 lengths and a tail of 0..15 bytes: a (literal, maximal match) table entry at every output offset around the 64 KiB mark and every distance from the end of the input); otherwise one run = one stream accepted by compress/flate (stdlib or fastgo encoder history, or block synthesiser) read through a drawn source kind, delivery schedule and Read-size schedule; non-trivial = stdlib accepts and the output is non-empty; distinct = distinct schedule signature (source refill sizes/outcomes, result)"},
	"C03": {Category: "exploration", Rule: "one run = one malformed/truncated/random input (planted structural fault, blind mutation, truncation; every 17th (thorough: 67th) run index sweeps the truncation point over every byte of a small valid stream) on a fresh or reused Reader; non-trivial = non-empty input; distinct = distinct schedule signature"},
	"C04": {Category: "exploration", Rule: "one run = one valid or truncated stream read all-at-once and under 8 (12 thorough) delivery/Read-size schedules, three of them aimed at a block header or block end; one evaluation = one schedule; non-trivial = non-empty input; distinct = distinct schedule signature"},
	"C05": {Category: "exploration", Rule: "every 193rd run index sweeps 300 (thorough 900) consecutive payload lengths of one encoder setting with a suffix behind the stream; otherwise one run = valid stream/container followed by a suffix, read to io.EOF through a source kind and constructor; non-trivial = non-empty suffix; distinct = distinct schedule signature"},
	"C06": {Category: "exploration", Rule: "one run = one gzip/zlib Writer history (header fields, level, partition, Reset reuse) executed by fastgo and by the stdlib Writer; every cleanly closed container is read by the opposite implementation; non-trivial = at least one byte written; distinct = distinct schedule signature"},
	"C07": {Category: "fault_enumeration", Rule: "for each sampled well-formed container: every truncation point and every single-bit flip (containers up to 420 bytes; sampled positions above), plus 60 sampled double flips / byte substitutions; one evaluation = one damaged container read through the drawn source and Read schedule; non-trivial = every damaged run; distinct = distinct schedule signature"},
	"C08": {Category: "exploration", Rule: "one run = 1..6 gzip members (fastgo or stdlib Writers, synthesised streams, empty members), optional trailing data, read in default mode or with Multistream(false)+Reset; non-trivial = more than one member; distinct = distinct schedule signature"},
	"C11": {Category: "exploration", Rule: "one run = producer task (Writer history with Flush points, stdlib or fastgo encoder) and consumer task (fastgo Reader) on a gated pipe under a seeded scheduler; the driver releases one flush point at a time and evaluates at every quiescence whether all data before that point was returned; afterwards the source stalls, fails or delivers unrelated bytes; non-trivial = at least two flush points; distinct = distinct schedule signature (incl. task switches)"},
	"C13": {Category: "exploration", Rule: "one run = 1..3 earlier streams (read partially, to EOF or into an error), Reset, next input (valid, back-references before its start, malformed), compared with a fresh Reader; non-trivial = at least one earlier stream; distinct = distinct schedule signature"},
	"C15": {Category: "fault_enumeration", Rule: "for each sampled valid stream/container the source fails after k bytes for every k in 0..len (thorough, and quick when len <= 512; otherwise first/last 8 and a stratified sample), error alone or with the last bytes; one evaluation = one (stream, k) run; non-trivial = the injected error was actually returned by the source; distinct = distinct schedule signature"},
	"C17": {Category: "exploration", Rule: "task sets: 70% random mixes of 2..8 independent Writers/Readers, 30% 4..8 instances of one package each cycling through 5..30 short streams with a preset dictionary of its own. Deterministic pass: one run = one task set switched by the seeded scheduler at every seam call, each compared with its solo run; non-trivial = more task switches than tasks; distinct = distinct schedule signature. Free-running pass (race-detector build): the same kind of task sets started behind one barrier with no synchronisation at GOMAXPROCS 2/4/16, outputs compared with solo runs, race reports collected (this pass does not control the interleaving and says so)"},
	"C18": {Category: "exploration", CrossLevel: true, Rule: "one run = one level-independent input (valid, truncated or malformed; flate/gzip/zlib) read with the same source/Read schedule in worker processes forced to each runnable level; the parent compares (output bytes, error kind) across levels; every 5th run index is a Writer history and every 191st a content sweep (as in C01) judged with C01's and C19's oracles at the forced level; non-trivial = input longer than the assembly loop's 24-byte slop; distinct = distinct schedule signature"},
	"C19": {Category: "exploration", Rule: "one run = one Writer history with data built around the window edge; non-trivial = the output contains matches and the input is longer than the window; distinct = distinct schedule signature"},
}

func init() {
	for k, m := range Metas {
		m.Assumptions = append(append([]string{}, commonAssume...), m.Assumptions...)
		m.Simulated = commonSim
		m.Real = commonReal
		Metas[k] = m
	}
}
