package props

import (
	"fmt"
	"runtime"
	"sync"

	"fgverif/kern"
	"fgverif/scen"
)

// ===================================================================== C17

type c17 struct{}

func init() { register(c17{}) }

func (c17) ID() string           { return "C17" }
func (c17) Runs(tier string) int { return tierLen(tier, 2000, 16000) }

func genMultiTask(r *kern.Rng, maxLen int) MultiTask {
	if r.Bool() {
		var w *scen.WScen
		switch r.Weighted(5, 2, 2) {
		case 0:
			w = genFlateW(r, maxLen)
		case 1:
			w = genContainerW(r, "gzip", maxLen)
		default:
			w = genContainerW(r, "zlib", maxLen)
		}
		w.Guard = false
		if r.Pct(30) {
			// skewed frequencies: the encoder's code-length limiting path
			w.Data.Kind, w.Data.P1 = "fib", r.Pick(16, 20, 24, 30, 40)
			if w.Data.Len < 3000 {
				w.Data.Len = 3000 + r.Intn(20000)
			}
			w.Level = r.Pick(-2, 1, 2, -1)
		}
		w.Ops = GenOps(r, w.Data.Len, r.Pick(0, 20, 50), 40)
		return MultiTask{W: w}
	}
	pkg := []string{"flate", "flate", "gzip", "zlib"}[r.Intn(4)]
	sc := &scen.RScen{Pkg: pkg}
	sc.In.Parts = []scen.StreamSpec{genStream(r, pkg, maxLen, 30)}
	if r.Pct(20) {
		sc.In.Mut = []scen.Mutation{{K: "flip", Pos: r.Intn(1 << 16)}}
	}
	sc.Src = genSrc(r, false)
	sc.Del = genDelivery(r)
	sc.Reads = genReads(r)
	if r.Pct(40) {
		// a recycled Reader: earlier stream, Close, Reset onto this one
		p := genPrior(r, pkg)
		p.Close = r.Pct(70)
		sc.Prior = []scen.Prior{p}
	}
	sc.CloseEnd = r.Pct(30)
	return MultiTask{R: sc}
}

// genSetupHeavyTask: an instance that goes through many short streams (Reset
// cycles), most of them with a preset dictionary of its own: the time is
// spent in constructors, Reset, header emission/parsing and table set-up,
// which is where anything shared between instances (caches, pools, lazily
// built tables) would sit.
func genSetupHeavyTask(r *kern.Rng, pkg string) MultiTask {
	dictSpec := func() *scen.DataSpec {
		d := scen.DataSpec{Kind: r.PickS("rand", "text", "alpha"), Seed: r.Uint64(), P1: 16, Len: r.Pick(16, 300, 5000, 32768, 40000)}
		return &d
	}
	mkW := func(maxLen int) *scen.WScen {
		var w *scen.WScen
		if pkg == "flate" {
			w = genFlateW(r, maxLen)
			if r.Pct(60) {
				w.Ctor, w.Dict = "dict", dictSpec()
			}
		} else {
			w = genContainerW(r, pkg, maxLen)
			if pkg == "zlib" && r.Pct(75) {
				w.Ctor, w.Dict = "dict", dictSpec()
			}
		}
		w.Guard = false
		return w
	}
	if r.Pct(55) {
		w := mkW(6000)
		cycles := 5 + r.Intn(25)
		per := w.Data.Len/cycles + 1
		w.Ops = nil
		for c := 0; c < cycles; c++ {
			w.Ops = append(w.Ops, scen.WOp{K: "w", N: 1 + r.Intn(per)})
			if r.Pct(20) {
				w.Ops = append(w.Ops, scen.WOp{K: "f"})
			}
			w.Ops = append(w.Ops, scen.WOp{K: "c"})
			if c < cycles-1 {
				w.Ops = append(w.Ops, scen.WOp{K: "r"})
			}
		}
		return MultiTask{W: w}
	}
	stream := func() (scen.InputSpec, *scen.DataSpec) {
		w := mkW(400)
		w.Ops = GenOps(r, w.Data.Len, 0, 5)
		return scen.InputSpec{Parts: []scen.StreamSpec{{Enc: "std", W: w}}}, w.Dict
	}
	sc := &scen.RScen{Pkg: pkg}
	sc.In, sc.Dict = stream()
	for i := 3 + r.Intn(12); i > 0; i-- {
		p := scen.Prior{Take: -1, Close: r.Pct(50)}
		p.In, p.Dict = stream()
		sc.Prior = append(sc.Prior, p)
	}
	sc.Src = genSrc(r, false)
	sc.Del = genDelivery(r)
	sc.Reads = genReads(r)
	return MultiTask{R: sc}
}

func (c17) Gen(r *kern.Rng, tier string, idx int) *Trace {
	n := 2 + r.Intn(7)
	ms := &MultiScen{}
	if r.Pct(30) {
		n = 4 + r.Intn(5)
		pkg := r.PickS("zlib", "zlib", "flate", "gzip")
		for i := 0; i < n; i++ {
			ms.Tasks = append(ms.Tasks, genSetupHeavyTask(r, pkg))
		}
		if r.Pct(40) {
			ms.Tasks[1] = ms.Tasks[0]
		}
		return &Trace{Property: "C17", Family: "M: instances cycling through many short streams (own dictionaries)", Multi: ms,
			Sched: kern.SchedSpec{Policy: r.PickS("rand", "rand", "rr"), Seed: r.Uint64(), SwitchPct: r.Pick(20, 50, 90, 100)}}
	}
	maxLen := r.Pick(2000, 20000, 100000)
	for i := 0; i < n; i++ {
		ms.Tasks = append(ms.Tasks, genMultiTask(r, maxLen))
	}
	// same configuration twice: identical instances are the likeliest to share something
	if r.Pct(40) {
		ms.Tasks[1] = ms.Tasks[0]
	}
	return &Trace{Property: "C17", Family: "M: independent instances interleaved at every seam call", Multi: ms,
		Sched: kern.SchedSpec{Policy: r.PickS("rand", "rand", "rand", "rr"), Seed: r.Uint64(), SwitchPct: r.Pick(20, 50, 90, 100)}}
}

func soloDigest(mt MultiTask) (uint64, string) {
	if mt.W != nil {
		rec, _ := runW(mt.W, true, false)
		return wDigest(rec), rec.Panic
	}
	rec, _ := runR(mt.R, true, false)
	return rDigest(rec), rec.Panic
}

func taskDesc(mt MultiTask) string {
	if mt.W != nil {
		return fmt.Sprintf("Writer %s %s L%d %s/%d", mt.W.Pkg, mt.W.Ctor, mt.W.Level, mt.W.Data.Kind, mt.W.Data.Len)
	}
	return "Reader " + rSample(mt.R)
}

func (c17) Exec(tr *Trace, keep bool) *Outcome {
	o := &Outcome{LevelIndep: false}
	ms := tr.Multi
	n := len(ms.Tasks)
	solo := make([]uint64, n)
	for i, mt := range ms.Tasks {
		d, p := soloDigest(mt)
		solo[i] = d
		if p != "" {
			o.stat("solo_run_panicked(C03/C16 subject)", 1)
			return o
		}
	}
	got := make([]uint64, n)
	panics := make([]string, n)
	feat := map[string]string{"tasks": fmt.Sprint(n), "mode": "deterministic"}
	if tr.Note == "free" {
		feat["mode"] = "free-running"
		// no synchronisation between the tasks at all: a baton would hide
		// every race from the detector. Own logs, nil tasks (Yield is a no-op).
		var wg sync.WaitGroup
		start := make(chan struct{})
		for i := range ms.Tasks {
			wg.Add(1)
			go func(i int) {
				defer wg.Done()
				<-start
				log := kern.NewLog(false)
				if mt := ms.Tasks[i]; mt.W != nil {
					rec := scen.RunW(nil, log, mt.W, true)
					got[i], panics[i] = wDigest(rec), rec.Panic
				} else {
					rec := scen.RunR(nil, log, mt.R, true)
					got[i], panics[i] = rDigest(rec), rec.Panic
				}
			}(i)
		}
		close(start)
		wg.Wait()
		o.Evals++
		o.stat("free_running_task_sets", 1)
		o.stat(fmt.Sprintf("gomaxprocs_%d", runtime.GOMAXPROCS(0)), 1)
	} else {
		log := kern.NewLog(keep)
		sim := kern.NewSim(log, tr.Sched)
		for i := range ms.Tasks {
			i := i
			sim.Go(fmt.Sprintf("task%d", i), func(t *kern.Task) {
				if mt := ms.Tasks[i]; mt.W != nil {
					rec := scen.RunW(t, log, mt.W, true)
					got[i], panics[i] = wDigest(rec), rec.Panic
				} else {
					rec := scen.RunR(t, log, mt.R, true)
					got[i], panics[i] = rDigest(rec), rec.Panic
				}
			})
		}
		sim.Run()
		o.fold(log, sim.Switches > n)
		o.stat("task_switches", sim.Switches)
		if sim.Aborted != "" {
			o.stat("step_cap_reached", 1)
			return o
		}
	}
	o.stat(fmt.Sprintf("tasks_%d", n), 1)
	o.Sample = fmt.Sprintf("%d tasks: %s | %s | ... sched %s/%d%%", n, taskDesc(ms.Tasks[0]), taskDesc(ms.Tasks[1]), tr.Sched.Policy, tr.Sched.SwitchPct)
	h := uint64(1469598103934665603)
	for i := range got {
		h = h*0x100000001b3 ^ got[i]
		if panics[i] != "" {
			o.violate(tr, "C17.panic", fmt.Sprintf("task %d (%s) panicked only when run with others: %s", i, taskDesc(ms.Tasks[i]), panics[i]), feat)
			return o
		}
		if got[i] != solo[i] {
			f := copyFeat(feat)
			f["task"] = fmt.Sprint(i)
			o.violate(tr, "C17.solo_diff", fmt.Sprintf("task %d (%s) produced digest %x next to %d other instances, %x when run alone", i, taskDesc(ms.Tasks[i]), got[i], n-1, solo[i]), f)
			return o
		}
	}
	o.Digest = h
	return o
}

func (c17) Shrinks(tr *Trace) []*Trace {
	var out []*Trace
	ms := tr.Multi
	if len(ms.Tasks) > 2 {
		for i := range ms.Tasks {
			c := tr.Clone()
			c.Multi.Tasks = append(c.Multi.Tasks[:i], c.Multi.Tasks[i+1:]...)
			out = append(out, c)
		}
	}
	for i, mt := range ms.Tasks {
		if mt.W != nil {
			for _, w := range shrinkW(mt.W) {
				c := tr.Clone()
				c.Multi.Tasks[i].W = w
				out = append(out, c)
			}
		} else {
			for _, r := range shrinkR(mt.R) {
				c := tr.Clone()
				c.Multi.Tasks[i].R = r
				out = append(out, c)
			}
		}
	}
	if tr.Sched.Policy != "rr" {
		c := tr.Clone()
		c.Sched = kern.SchedSpec{Policy: "rr"}
		out = append(out, c)
	}
	return out
}
