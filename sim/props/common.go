// Package props turns each property into generator + executor + oracle +
// shrinker over explicit traces.
package props

import (
	"bytes"
	sflate "compress/flate"
	"encoding/json"
	"fmt"
	"io"
	"sort"
	"sync/atomic"

	"fgverif/kern"
	"fgverif/ref"
	"fgverif/scen"

	fflate "github.com/intel/fastgo/compress/flate"
)

// Trace is the replay file: everything needed to re-execute one simulated run
// without a PRNG.
type Trace struct {
	Property string `json:"property"`
	Level    int    `json:"level"` // forced acceleration level (FASTGO_VERIF_ARCHLEVEL)
	Seed     uint64 `json:"seed,omitempty"`
	Index    int    `json:"index,omitempty"`
	Family   string `json:"family,omitempty"`

	W     *scen.WScen    `json:"w,omitempty"`
	W2    *scen.WScen    `json:"w2,omitempty"`
	R     *scen.RScen    `json:"r,omitempty"`
	Rs    []*scen.RScen  `json:"rs,omitempty"`
	Pipe  *PipeScen      `json:"pipe,omitempty"`
	Multi *MultiScen     `json:"multi,omitempty"`
	Sched kern.SchedSpec `json:"sched,omitempty"`
	// Sweep asks the executor to enumerate the fault dimension of the property
	// (every sink call k, every source byte k, every truncation / bit flip)
	// around this workload; a violating sub-run is reported as a concrete
	// trace with Sweep=false.
	Sweep  bool   `json:"sweep,omitempty"`
	Stride int    `json:"stride,omitempty"` // sweep stride (1 = every position)
	Note   string `json:"note,omitempty"`
	// Prelude, when set, makes replay first execute the run indices that the
	// same worker shard executed before this one (state that survives from run
	// to run inside one process, e.g. a package-level pool, needs them).
	Prelude *Prelude `json:"prelude,omitempty"`

	// filled in when a violation is reported
	Oracle  string `json:"oracle,omitempty"`
	Detail  string `json:"detail,omitempty"`
	LogHash uint64 `json:"log_hash,omitempty"`
}

type Prelude struct {
	Tier    string `json:"tier"`
	Shard   int    `json:"shard"`
	NShards int    `json:"nshards"`
}

func (t *Trace) Clone() *Trace {
	b, _ := json.Marshal(t)
	var c Trace
	if err := json.Unmarshal(b, &c); err != nil {
		panic(err)
	}
	return &c
}

type Violation struct {
	Oracle   string            `json:"oracle"`
	Detail   string            `json:"detail"`
	Features map[string]string `json:"features,omitempty"`
	Trace    *Trace            `json:"trace,omitempty"`
}

// Outcome of executing one trace (possibly a sweep of sub-runs).
type Outcome struct {
	Evals      int            `json:"evals"`
	Violations []Violation    `json:"violations,omitempty"`
	Digest     uint64         `json:"digest"`         // observable results: bytes and error kinds
	InputHash  uint64         `json:"input_hash"`     // hash of the compressed input (Reader properties)
	LevelIndep bool           `json:"level_indep"`    // the input does not depend on the acceleration level
	Sigs       []uint64       `json:"sigs,omitempty"` // schedule signatures of non-trivial sub-runs
	LogHash    uint64         `json:"log_hash"`
	Events     uint64         `json:"events"`
	Stats      map[string]int `json:"stats,omitempty"`
	Sample     string         `json:"sample,omitempty"`
	// Subs is filled only in explain mode (FGSIM_EXPLAIN=1): one entry per
	// (sub-)run, so that the parent can say what differs between two levels.
	Subs []SubResult `json:"subs,omitempty"`
}

type SubResult struct {
	K         int    `json:"k"`
	Kind      string `json:"kind"`
	OutLen    int    `json:"out_len"`
	RefPrefix bool   `json:"ref_prefix"` // output is a prefix of the reference inflater's output
	RefTrunc  bool   `json:"ref_trunc"`  // the reference inflater says the input is a truncated valid stream
	Digest    uint64 `json:"digest"`
}

var ExplainMode = false

func (o *Outcome) stat(k string, n int) {
	if o.Stats == nil {
		o.Stats = map[string]int{}
	}
	o.Stats[k] += n
}

func (o *Outcome) violate(tr *Trace, oracle, detail string, feat map[string]string) {
	if len(detail) > 1500 {
		detail = detail[:1500] + "..."
	}
	if tr.W != nil && tr.W.Ctor == "dict" && tr.W.Dict != nil {
		if feat == nil {
			feat = map[string]string{}
		}
		if _, ok := feat["same_as_stdlib_writer"]; !ok {
			// the destination that is being judged: a named segment, the last one
			// (C12: the stream after the last Reset), or all of them
			seg := -1
			if v, ok := feat["segment"]; ok {
				fmt.Sscan(v, &seg)
			} else if tr.Property == "C12" {
				seg = -2
			}
			feat["same_as_stdlib_writer"] = fmt.Sprint(sameAsStdlibSeg(tr.W, seg))
		}
	}
	c := tr.Clone()
	c.Sweep = false
	c.Oracle, c.Detail = oracle, detail
	o.Violations = append(o.Violations, Violation{Oracle: oracle, Detail: detail, Features: feat, Trace: c})
}

// fold merges a sub-run's log into the outcome.
// ProgressTick counts completed (sub-)runs; the worker's hang guard watches
// it, so that a long sweep is never mistaken for a hang.
var ProgressTick int64

func (o *Outcome) fold(log *kern.Log, nontrivial bool) {
	atomic.AddInt64(&ProgressTick, 1)
	o.Evals++
	o.Events += log.Seq
	o.LogHash = o.LogHash*0x100000001b3 ^ log.Hash
	if nontrivial {
		o.Sigs = append(o.Sigs, log.Sig)
	}
}

type Property interface {
	ID() string
	// Runs returns how many run indices the tier explores.
	Runs(tier string) int
	Gen(r *kern.Rng, tier string, idx int) *Trace
	Exec(tr *Trace, keep bool) *Outcome
	Shrinks(tr *Trace) []*Trace
}

var Registry = map[string]Property{}

func register(p Property) { Registry[p.ID()] = p }

func IDs() []string {
	var ids []string
	for k := range Registry {
		ids = append(ids, k)
	}
	sort.Strings(ids)
	return ids
}

// ------------------------------------------------------------ decoders

type decRes struct {
	out  []byte
	err  error
	kind string
	used int // bytes consumed from the input (where known)
}

func stdInflate(in, dict []byte) decRes {
	br := bytes.NewReader(in)
	var r io.ReadCloser
	if dict != nil {
		r = sflate.NewReaderDict(br, dict)
	} else {
		r = sflate.NewReader(br)
	}
	out, err := readAllCap(r, 200<<20)
	if err == nil {
		err = io.EOF
	}
	return decRes{out: out, err: err, kind: scen.ErrKind(err), used: len(in) - br.Len()}
}

func fastInflate(in, dict []byte) (res decRes, panicked string) {
	defer func() {
		if r := recover(); r != nil {
			panicked = fmt.Sprint(r)
		}
	}()
	br := bytes.NewReader(in)
	var r io.ReadCloser
	if dict != nil {
		r = fflate.NewReaderDict(br, dict)
	} else {
		r = fflate.NewReader(br)
	}
	out, err := readAllCap(r, 200<<20)
	if err == nil {
		err = io.EOF
	}
	return decRes{out: out, err: err, kind: scen.ErrKind(err), used: len(in) - br.Len()}, ""
}

// readAllCap returns nil error for a clean EOF.
func readAllCap(r io.Reader, max int) ([]byte, error) {
	var out []byte
	buf := make([]byte, 64<<10)
	zero := 0
	for {
		n, err := r.Read(buf)
		out = append(out, buf[:n]...)
		if err == io.EOF {
			return out, nil
		}
		if err != nil {
			return out, err
		}
		if n == 0 {
			zero++
			if zero > 100 {
				return out, fmt.Errorf("livelock: 100 empty reads")
			}
		} else {
			zero = 0
		}
		if len(out) > max {
			return out, fmt.Errorf("too big")
		}
	}
}

func diffAt(a, b []byte) string {
	n := len(a)
	if len(b) < n {
		n = len(b)
	}
	for i := 0; i < n; i++ {
		if a[i] != b[i] {
			return fmt.Sprintf("first difference at byte %d (%#x vs %#x), lengths %d vs %d", i, a[i], b[i], len(a), len(b))
		}
	}
	return fmt.Sprintf("lengths %d vs %d, common prefix equal", len(a), len(b))
}

// checkStream applies C01's oracle to one emitted flate stream.
func checkStream(stream, model, dict []byte, window int) (oracle, detail string, rr *ref.Result) {
	rr = ref.Inflate(stream, ref.Options{Dict: dict})
	if rr.Defect != nil {
		return "decode_ref", "reference inflater: " + rr.Defect.String(), rr
	}
	if !rr.Complete {
		return "not_one_stream", fmt.Sprintf("reference inflater: stream incomplete after %d bytes (decoded %d of %d)", len(stream), len(rr.Out), len(model)), rr
	}
	if !bytes.Equal(rr.Out, model) {
		return "decode_ref", "reference inflater output differs: " + diffAt(rr.Out, model), rr
	}
	if rr.EndByte != len(stream) {
		return "not_one_stream", fmt.Sprintf("stream ends at byte %d but %d bytes were emitted", rr.EndByte, len(stream)), rr
	}
	sd := stdInflate(stream, dict)
	if sd.err != io.EOF {
		return "decode_std", fmt.Sprintf("compress/flate: %v after %d bytes", sd.err, len(sd.out)), rr
	}
	if !bytes.Equal(sd.out, model) {
		return "decode_std", "compress/flate output differs: " + diffAt(sd.out, model), rr
	}
	fd, p := fastInflate(stream, dict)
	if p != "" {
		return "decode_self", "fastgo Reader panicked: " + p, rr
	}
	if fd.err != io.EOF {
		return "decode_self", fmt.Sprintf("fastgo Reader: %v after %d bytes", fd.err, len(fd.out)), rr
	}
	if !bytes.Equal(fd.out, model) {
		return "decode_self", "fastgo Reader output differs: " + diffAt(fd.out, model), rr
	}
	return "", "", rr
}

// ------------------------------------------------------------ generators

var allLevels = []int{-2, -1, 0, 1, 2, 3, 4, 5, 6, 7, 8, 9}

// genLevel is biased to the accelerated settings.
func genLevel(r *kern.Rng) int {
	if r.Pct(75) {
		return r.Pick(-2, -1, 1, 2)
	}
	return allLevels[r.Intn(len(allLevels))]
}

var chunkAnchors = []int{0, 1, 2, 3, 7, 8, 9, 255, 256, 258, 259, 4095, 4096, 4097, 8191, 8192, 8193, 8449, 8450, 8451, 32768, 65535, 65536, 65537, 65793, 65794, 65795}

// GenOps splits total bytes into Write calls interleaved with Flush calls and
// ends with Close. flushPct is the chance of a Flush after each write.
func GenOps(r *kern.Rng, total int, flushPct int, maxOps int) []scen.WOp {
	var ops []scen.WOp
	if r.Pct(10) {
		ops = append(ops, scen.WOp{K: "f"})
	}
	style := r.Weighted(3, 2, 4, 3, 2)
	left := total
	for left > 0 && len(ops) < maxOps-2 {
		var n int
		switch style {
		case 0: // one write
			n = left
		case 1: // tiny writes (bounded count)
			n = 1 + r.Intn(4)
			if left > 600 {
				n = left/150 + r.Intn(5)
			}
		case 2: // random sizes
			n = r.Intn(left + 1)
			if r.Pct(50) {
				n = r.Intn(1 + left/4)
			}
		case 3: // anchors
			n = chunkAnchors[r.Intn(len(chunkAnchors))]
		default: // mixture, incl. empty writes
			switch r.Intn(4) {
			case 0:
				n = 0
			case 1:
				n = chunkAnchors[r.Intn(len(chunkAnchors))]
			default:
				n = r.Intn(1 + left/2)
			}
		}
		if n > left {
			n = left
		}
		ops = append(ops, scen.WOp{K: "w", N: n})
		left -= n
		if r.Pct(flushPct) {
			ops = append(ops, scen.WOp{K: "f"})
			if r.Pct(15) {
				ops = append(ops, scen.WOp{K: "f"})
			}
		}
	}
	if left > 0 {
		ops = append(ops, scen.WOp{K: "w", N: left})
	}
	if total == 0 && r.Pct(50) {
		ops = append(ops, scen.WOp{K: "w", N: 0})
	}
	if r.Pct(flushPct / 2) {
		ops = append(ops, scen.WOp{K: "f"})
	}
	ops = append(ops, scen.WOp{K: "c"})
	return ops
}

// genFlateW draws a flate Writer configuration (without ops).
func genFlateW(r *kern.Rng, maxLen int) *scen.WScen {
	sc := &scen.WScen{Pkg: "flate", Guard: true}
	switch r.Weighted(5, 4, 1) {
	case 0:
		sc.Ctor = "new"
	case 1:
		sc.Ctor = "4k"
	default:
		sc.Ctor = "dict"
		d := scen.GenData(r, 40000)
		if r.Pct(15) {
			d.Len = 0
		}
		sc.Dict = &d
	}
	sc.Level = genLevel(r)
	sc.Data = scen.GenData(r, maxLen)
	if sc.Ctor != "dict" && r.Pct(12) && maxLen >= 100000 {
		// wide tokens: dense copies with log-uniform lengths and (far) distances,
		// large enough for skewed length/distance codes; the vector token encoders'
		// lane-width limits only matter here
		sc.Data = scen.DataSpec{Kind: "logcopies", Seed: r.Uint64(), P1: r.Pick(0, 1, 1), Len: r.Range(100000, 400000)}
		if sc.Data.Len > maxLen {
			sc.Data.Len = maxLen
		}
		sc.Level = r.Pick(1, 2, -1, 1, 2)
	}
	if sc.Ctor == "dict" && r.Pct(60) {
		// data related to the dictionary
		sc.Data = *sc.Dict
		sc.Data.Len = scen.GenLen(r, maxLen)
	}
	return sc
}

func genGzHdr(r *kern.Rng) *scen.GzHdr {
	if r.Pct(30) {
		return nil
	}
	h := &scen.GzHdr{OS: 255}
	latin := func(n int) string {
		rs := make([]rune, n)
		for i := range rs {
			rs[i] = rune(1 + r.Intn(255))
		}
		return string(rs)
	}
	if r.Pct(50) {
		h.Name = latin(r.Pick(0, 1, 5, 20, 100, 511))
	}
	if r.Pct(50) {
		h.Comment = latin(r.Pick(0, 1, 5, 20, 100, 511))
	}
	if r.Pct(40) {
		h.HasExtra = true
		h.Extra = r.Bytes(r.Pick(0, 1, 4, 100, 65535))
	}
	switch r.Intn(4) {
	case 0:
		h.MTime = 0
	case 1:
		h.MTime = 1
	case 2:
		h.MTime = 1<<32 - 1
	default:
		h.MTime = int64(r.Intn(1 << 31))
	}
	if r.Pct(50) {
		h.SetOS = true
		h.OS = r.Intn(256)
	}
	return h
}

// genContainerW draws a gzip/zlib Writer configuration.
func genContainerW(r *kern.Rng, pkg string, maxLen int) *scen.WScen {
	sc := &scen.WScen{Pkg: pkg}
	switch pkg {
	case "gzip":
		if r.Pct(20) {
			sc.Ctor = "new"
		} else {
			sc.Ctor = "level"
		}
		sc.Hdr = genGzHdr(r)
	case "zlib":
		switch r.Weighted(2, 6, 2) {
		case 0:
			sc.Ctor = "new"
		case 1:
			sc.Ctor = "level"
		default:
			sc.Ctor = "dict"
			d := scen.GenData(r, 40000)
			sc.Dict = &d
		}
	}
	sc.Level = genLevel(r)
	sc.Data = scen.GenData(r, maxLen)
	return sc
}

func tierLen(tier string, quick, thorough int) int {
	if tier == "thorough" {
		return thorough
	}
	return quick
}

func wFeatures(sc *scen.WScen) map[string]string {
	f := map[string]string{"pkg": sc.Pkg, "ctor": sc.Ctor, "level": fmt.Sprint(sc.EffLevel())}
	if sc.Accelerated() {
		f["impl"] = "accelerated"
	} else {
		f["impl"] = "delegated"
	}
	if sc.EffLevel() == -2 {
		f["class"] = "huffman_only"
	} else if sc.Accelerated() {
		f["class"] = "lz77"
	} else {
		f["class"] = "stdlib"
	}
	pat := ""
	for _, o := range sc.Ops {
		pat += o.K
	}
	if len(pat) > 24 {
		pat = pat[:24] + "+"
	}
	f["ops"] = pat
	return f
}

// ------------------------------------------------------------ W shrinker

func shrinkData(d scen.DataSpec) []scen.DataSpec {
	var out []scen.DataSpec
	if d.Lit == nil {
		if d.Len > 0 {
			for _, n := range []int{d.Len / 2, d.Len - d.Len/4, d.Len - 1} {
				if n >= 0 && n < d.Len {
					c := d
					c.Len = n
					out = append(out, c)
				}
			}
		}
		for _, k := range []string{"zeros", "alpha", "rand"} {
			if d.Kind != k {
				c := d
				c.Kind = k
				out = append(out, c)
			}
		}
	}
	return out
}

func sumWrites(ops []scen.WOp) int {
	n := 0
	for _, o := range ops {
		if o.K == "w" {
			n += o.N
		}
	}
	return n
}

func shrinkW(sc *scen.WScen) []*scen.WScen {
	var out []*scen.WScen
	clone := func() *scen.WScen {
		b, _ := json.Marshal(sc)
		var c scen.WScen
		json.Unmarshal(b, &c)
		return &c
	}
	// drop ops (never the only one)
	if len(sc.Ops) > 1 {
		// drop halves first
		h := len(sc.Ops) / 2
		if h >= 1 {
			c := clone()
			c.Ops = append([]scen.WOp{}, sc.Ops[h:]...)
			out = append(out, c)
			c = clone()
			c.Ops = append([]scen.WOp{}, sc.Ops[:h]...)
			out = append(out, c)
		}
		for i := range sc.Ops {
			c := clone()
			c.Ops = append(append([]scen.WOp{}, sc.Ops[:i]...), sc.Ops[i+1:]...)
			out = append(out, c)
		}
	}
	// merge adjacent writes
	for i := 0; i+1 < len(sc.Ops); i++ {
		if sc.Ops[i].K == "w" && sc.Ops[i+1].K == "w" {
			c := clone()
			c.Ops[i].N += c.Ops[i+1].N
			c.Ops = append(c.Ops[:i+1], c.Ops[i+2:]...)
			out = append(out, c)
		}
	}
	// shrink write sizes
	for i, o := range sc.Ops {
		if o.K == "w" && o.N > 0 {
			for _, n := range []int{o.N / 2, o.N - 1} {
				if n != o.N {
					c := clone()
					c.Ops[i].N = n
					out = append(out, c)
				}
			}
		}
	}
	for _, d := range shrinkData(sc.Data) {
		c := clone()
		c.Data = d
		out = append(out, c)
	}
	if sc.Hdr != nil {
		c := clone()
		c.Hdr = nil
		out = append(out, c)
	}
	if sc.Fault != nil && sc.Fault.Short {
		c := clone()
		c.Fault.Short = false
		out = append(out, c)
	}
	if sc.Fault != nil && sc.Fault.Transient {
		c := clone()
		c.Fault.Transient = false
		out = append(out, c)
	}
	return out
}

// Weight is a well-founded size measure on traces: the minimiser only accepts
// candidates that strictly decrease it.
func Weight(tr *Trace) int {
	b, _ := json.Marshal(tr)
	var v interface{}
	json.Unmarshal(b, &v)
	return weigh(v, "")
}

var kindRank = map[string]int{"zeros": 0, "alpha": 1, "rand": 2, "bytes.Reader": 0, "plain": 1, "bufio": 2, "lit": 0, "std": 1, "synth": 2, "fast": 3, "flate": 0, "zlib": 1, "gzip": 2}

func weigh(v interface{}, key string) int {
	switch x := v.(type) {
	case map[string]interface{}:
		w := 0
		for k, e := range x {
			if k == "seed" || k == "synth_seed" || k == "log_hash" || k == "detail" || k == "oracle" || k == "index" || k == "level" || k == "note" {
				continue
			}
			w += 20 + weigh(e, k)
		}
		return w
	case []interface{}:
		w := 0
		for _, e := range x {
			w += 30 + weigh(e, key)
		}
		return w
	case float64:
		if x < 0 {
			x = -x
		}
		if x > 1e9 {
			x = 1e9
		}
		return int(x)
	case string:
		if r, ok := kindRank[x]; ok {
			return r * 5
		}
		if key == "kind" || key == "enc" {
			return 40
		}
		return len(x)
	case bool:
		if x {
			return 3
		}
	}
	return 0
}
