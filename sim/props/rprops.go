package props

import (
	"bytes"
	"fmt"
	"os"

	"fgverif/kern"
	"fgverif/ref"
	"fgverif/scen"
)

func kindClass(k string) string {
	switch k {
	case "EOF", "UnexpectedEOF", "Corrupt", "Checksum", "Header", "injected", "nil", "Dictionary":
		return k
	}
	return "other"
}

func rDigest(rec *scen.RRec) uint64 {
	h := kern.HashBytes(rec.Out)
	h = h*0x100000001b3 ^ kern.HashBytes([]byte(kindClass(rec.Kind)))
	if rec.Panic != "" {
		h ^= 0xdead
	}
	return h
}

func inputHash(rec *scen.RRec) uint64 {
	if rec.Built == nil {
		return 0
	}
	return kern.HashBytes(rec.Built.Bytes)
}

func afterOK(rec *scen.RRec) (bool, string) {
	for i, k := range rec.After {
		if k != rec.Kind || rec.AfterN[i] != 0 {
			return false, fmt.Sprintf("Read #%d after the first error (%s) returned n=%d, %s", i+1, rec.Kind, rec.AfterN[i], k)
		}
	}
	if !rec.AfterSame {
		return false, "later Reads returned a different error value"
	}
	return true, ""
}

func reachR(o *Outcome, rr *ref.Result, rec *scen.RRec, sc *scen.RScen) {
	if rr != nil {
		for _, b := range rr.Blocks {
			o.stat(fmt.Sprintf("blocks_type%d", b.Type), 1)
			if b.MaxCodeLit > 12 {
				o.stat("blocks_with_litcode_longer_than_12", 1)
			}
			if b.MaxCodeDist > 10 {
				o.stat("blocks_with_distcode_longer_than_10", 1)
			}
			if b.Type == 2 && b.NumDistCodes <= 1 {
				o.stat("blocks_with_degenerate_distance_code", 1)
			}
			if b.Type == 0 && b.StartBit%8 != 0 {
				o.stat("stored_blocks_at_odd_bit_offset", 1)
			}
		}
		if len(rr.Out) > 65536 {
			o.stat("runs_with_history_slide", 1)
		}
		if rr.MaxDist == 32768 {
			o.stat("runs_with_distance_32768", 1)
		}
		if rr.LongestMatch == 258 {
			o.stat("runs_with_match_258", 1)
		}
	}
	if rec != nil && rec.Src != nil {
		o.stat("source_refills", rec.Src.Calls)
		if rec.Src.EOFGiven > 0 && sc.Del.EOFWithData {
			o.stat("runs_eof_with_data", 1)
		}
	}
	if len(sc.Reads) == 1 && sc.Reads[0] == 1 {
		o.stat("runs_read_size_1", 1)
	}
	o.stat("src_"+sc.Src.Kind, 1)
}

// ===================================================================== C02

type c02 struct{}

func init() { register(c02{}) }

func (c02) ID() string           { return "C02" }
func (c02) Runs(tier string) int { return tierLen(tier, 8000, 60000) }

func (c02) Gen(r *kern.Rng, tier string, idx int) *Trace {
	if idx%3989 == 7 {
		// phase sweep: [literal, maximal match] units (the output advances by 259 per unit, both symbols share one
		// multi-symbol table entry) behind a fresh head whose length is swept over 259 consecutive values, so that such an
		// entry is decoded at every offset around the point where the 64 KiB history buffer is full, and a tail swept over
		// 0..15 bytes, which moves the end of the input relative to it
		k, u := r.Range(1, 40), r.Pick(1, 2, 3, 3)
		w := &scen.WScen{Pkg: "flate", Ctor: "new", Level: r.Pick(1, 1, 1, 9)}
		w.Data = scen.DataSpec{Kind: "units258", Seed: r.Uint64(), P1: 65278 - 259*k - 130}
		w.Data.Len = w.Data.P1 + 259*(k+u)
		// (a Flush after the head: the units get a Huffman block of their own, in which their codes are short)
		w.Ops = []scen.WOp{{K: "w", N: w.Data.P1}, {K: "f"}, {K: "w", N: 1 << 30}, {K: "c"}}
		sc := &scen.RScen{Pkg: "flate"}
		sc.In.Parts = []scen.StreamSpec{{Enc: "std", W: w}}
		sc.Src = genSrc(r, true)
		if r.Pct(50) {
			sc.Del = genDelivery(r)
		}
		sc.Reads = genReads(r)
		return &Trace{Property: "C02", Family: "R-valid(phase sweep)", R: sc, Sweep: true, Stride: 259 * 16}
	}
	maxLen := tierLen(tier, 300000, 2<<20)
	if r.Pct(70) {
		maxLen = 100000
	}
	sc := &scen.RScen{Pkg: "flate"}
	sc.In.Parts = []scen.StreamSpec{genStream(r, "flate", maxLen, 25)}
	if r.Pct(20) {
		d := scen.GenData(r, 5000)
		sc.In.Suffix = &d
	}
	sc.Src = genSrc(r, true)
	sc.Del = genDelivery(r)
	sc.Reads = genReads(r)
	if r.Pct(15) {
		sc.Ctor = "reset"
	}
	return &Trace{Property: "C02", Family: "R-valid", R: sc}
}

func (c02) Exec(tr *Trace, keep bool) *Outcome {
	if tr.Sweep {
		o := &Outcome{LevelIndep: true}
		o.stat("phase_sweeps", 1)
		h := uint64(0)
		base := tr.R.In.Parts[0].W.Data
		for d := 0; d < tr.Stride; d++ {
			c := tr.Clone()
			c.Sweep, c.Stride = false, 0
			dd := &c.R.In.Parts[0].W.Data
			dd.P1, dd.P2 = base.P1+d%259, d/259
			dd.Len = dd.P1 + (base.Len - base.P1) + dd.P2
			c.R.In.Parts[0].W.Ops[0].N = dd.P1
			so := c02{}.Exec(c, keep)
			o.Evals += so.Evals
			o.Events += so.Events
			o.LogHash = o.LogHash*0x100000001b3 ^ so.LogHash
			if len(o.Sigs) < 16 {
				o.Sigs = append(o.Sigs, so.Sigs...)
			}
			h = h*0x100000001b3 ^ so.Digest
			for k, v := range so.Stats {
				o.stat(k, v)
			}
			o.Violations = append(o.Violations, so.Violations...)
			if len(o.Violations) > 3 {
				break
			}
		}
		if len(o.Sigs) > 16 {
			o.Sigs = o.Sigs[:16]
		}
		o.Digest = h
		o.Sample = fmt.Sprintf("phase sweep: units258 head %d.. tail %d.. level %d, %d streams; %s", base.P1, base.P2, tr.R.In.Parts[0].W.Level, tr.Stride, rSample(tr.R))
		return o
	}
	o := &Outcome{}
	sc := tr.R
	rec, log := runR(sc, true, keep)
	feat := rFeatures(sc)
	o.Digest = rDigest(rec)
	o.InputHash = inputHash(rec)
	o.LevelIndep = rec.Built != nil && !rec.Built.FastMade
	o.Sample = rSample(sc)
	if rec.Built.BuildErr != "" {
		o.fold(log, false)
		o.stat("input_build_failed", 1)
		return o
	}
	in := rec.Built.Bytes
	sd := stdInflate(in, nil)
	if sd.kind != "EOF" {
		o.fold(log, false)
		o.stat("skipped_stdlib_rejects_input", 1)
		return o
	}
	o.fold(log, len(sd.out) > 0)
	if rec.Panic != "" {
		o.violate(tr, "C02.panic", rec.Panic, feat)
		return o
	}
	rr := ref.Inflate(in, ref.Options{})
	reachR(o, rr, rec, sc)
	if rec.Livelock {
		o.violate(tr, "C02.hang", "more than 64 consecutive Reads returned (0, nil)", feat)
		return o
	}
	if !bytes.Equal(rec.Out, sd.out) {
		o.violate(tr, "C02.bytes", fmt.Sprintf("fastgo vs compress/flate output: %s; fastgo ended with %s", diffAt(rec.Out, sd.out), rec.Kind), feat)
		return o
	}
	if rec.Kind != "EOF" {
		o.violate(tr, "C02.error", fmt.Sprintf("compress/flate returns io.EOF after %d bytes, fastgo returns %v", len(sd.out), rec.Err), feat)
		return o
	}
	if ok, why := afterOK(rec); !ok {
		o.violate(tr, "C02.second_eof", why, feat)
	}
	return o
}

func (c02) Shrinks(tr *Trace) []*Trace { return shrinkTraceR(tr) }

// ===================================================================== C03

type c03 struct{}

func init() { register(c03{}) }

func (c03) ID() string           { return "C03" }
func (c03) Runs(tier string) int { return tierLen(tier, 5000, 32000) }

func genMalformedInput(r *kern.Rng, maxLen int) scen.InputSpec {
	var in scen.InputSpec
	switch r.Weighted(2, 4, 5, 3, 3) {
	case 4: // stale-table probe: deep dynamic codes first, then a block whose code leaves slots unassigned
		p := genSynthParams(r, 20000)
		p.Shape = r.Pick(2, 2, 1)
		p.TypeWeights = [3]int{0, r.Pick(0, 0, 1), 3}
		p.MaxBlocks = r.Pick(3, 4, 6)
		p.Alphabet = r.Pick(64, 256, 256)
		p.EmptyPct, p.SyncPct = 0, 0
		p.Fault = r.PickS(ref.FaultUnassigned, ref.FaultUnassigned, ref.FaultNoDistButUsed, ref.FaultBadDistSym, ref.FaultBadLenSym)
		p.FaultBlock = r.Pick(1, 2, 3)
		p.TailGarbage = r.Pick(600, 3000)
		in.Parts = []scen.StreamSpec{{Enc: "synth", Synth: p, SynthSeed: r.Uint64()}}
	case 0: // random bytes, often steered to a compressed block type
		n := r.Pick(0, 1, 2, 3, 5, 16, 64, 300, 1000, 5000)
		b := r.Bytes(n)
		if n > 0 && r.Pct(60) {
			b[0] = b[0]&^7 | byte(r.Pick(2, 3, 4, 5, 0, 1))
		}
		in.Parts = []scen.StreamSpec{{Enc: "lit", Lit: b}}
	case 1: // blind mutations of a valid stream
		in.Parts = []scen.StreamSpec{genStream(r, "flate", maxLen, 0)}
		for i := 1 + r.Intn(3); i > 0; i-- {
			switch r.Intn(5) {
			case 0, 1:
				pos := r.Intn(1 << 20)
				if r.Pct(50) {
					pos = r.Intn(400) // early bits: headers
				}
				in.Mut = append(in.Mut, scen.Mutation{K: "flip", Pos: pos})
			case 2:
				in.Mut = append(in.Mut, scen.Mutation{K: "set", Pos: r.Intn(1 << 20), Val: r.Intn(256)})
			case 3:
				in.Mut = append(in.Mut, scen.Mutation{K: "ins", Pos: r.Intn(1 << 20), Val: r.Intn(256)})
			default:
				in.Mut = append(in.Mut, scen.Mutation{K: "del", Pos: r.Intn(1 << 20)})
			}
		}
	case 2: // one planted structural fault
		p := genSynthParams(r, 60000)
		p.Fault = ref.AllFaults[r.Intn(len(ref.AllFaults))]
		p.FaultBlock = r.Pick(0, 0, 1, 2, 5)
		p.TailGarbage = r.Pick(0, 0, 600, 600, 3000)
		in.Parts = []scen.StreamSpec{{Enc: "synth", Synth: p, SynthSeed: r.Uint64()}}
	default: // truncation of a valid stream
		in.Parts = []scen.StreamSpec{genStream(r, "flate", 60000, 0)}
		in.Mut = []scen.Mutation{{K: "trunc", Pos: r.Intn(1 << 16)}}
		if r.Pct(50) {
			in.Mut[0].Pos = r.Intn(300)
		}
	}
	return in
}

// genHeaderProbe: malformed dynamic headers of the two shapes that made the
// header parser and the distance-table builder index past their tables (both
// repaired; see known_findings.json): a repeat-previous run that starts in the
// last literal/length positions of a header with few distance codes and
// overshoots, and headers with many distance codes longer than 10 bits
// damaged by a few bit flips in the header region.
func genHeaderProbe(r *kern.Rng) scen.InputSpec {
	var in scen.InputSpec
	p := genSynthParams(r, 4000)
	p.AimOut, p.AimOff = 0, 0
	p.TypeWeights = [3]int{0, 0, 1}
	p.MaxBlocks = r.Pick(1, 1, 2)
	p.EmptyPct, p.SyncPct = 0, 0
	if r.Bool() {
		p.Fault, p.FaultBlock = ref.FaultRunPast, 0
		p.FarPct, p.MatchPct = 0, r.Pick(0, 0, 0, 5, 20) // few distance codes, often no length codes either
		p.OutLen = r.Pick(20, 300, 3000)
		p.TailGarbage = r.Pick(0, 600)
		in.Parts = []scen.StreamSpec{{Enc: "synth", Synth: p, SynthSeed: r.Uint64()}}
		return in
	}
	p.Shape, p.FarPct, p.MatchPct = 2, 100, r.Pick(80, 95)
	p.OutLen = r.Pick(20000, 40000, 60000)
	in.Parts = []scen.StreamSpec{{Enc: "synth", Synth: p, SynthSeed: r.Uint64()}}
	for i := 1 + r.Intn(3); i > 0; i-- {
		in.Mut = append(in.Mut, scen.Mutation{K: "flip", Pos: 3 + r.Intn(900)})
	}
	return in
}

func genPrior(r *kern.Rng, pkg string) scen.Prior {
	p := scen.Prior{Take: -1, Close: r.Pct(35)}
	p.In.Parts = []scen.StreamSpec{genStream(r, pkg, 120000, 0)}
	switch r.Intn(4) {
	case 0:
		p.Take = r.Pick(0, 1, 10, 100, 1000, 5000, 40000, 70000)
		p.Reads = []int{r.Pick(1, 7, 100, 4096)}
	case 1: // into an error
		p.In.Mut = []scen.Mutation{{K: "flip", Pos: r.Intn(1 << 16)}, {K: "trunc", Pos: 1 + r.Intn(1<<14)}}
	case 2: // its source fails part-way
		if r.Bool() {
			p.FailAfter = 1 + r.Intn(1<<14)
		}
	}
	return p
}

// genEarlyReach: a fixed-Huffman block in which a copy reaches before the
// first byte ever produced, while the output is still (almost) empty: k
// literals (0..3), a copy of length 3..10 whose distance is k+1..4 (the
// smallest distances, the ones with a dedicated broadcast path in the
// assembly loop), then enough literals that the copy is decoded by the
// assembly loop (more than its input slack ahead) and an end-of-block.
// Wave 19 (s19_C18): the planted dist_too_far fault sits in mid-stream, where
// a small distance is never too far.
func genEarlyReach(r *kern.Rng) scen.InputSpec {
	var w ref.BitWriter
	lit := func(v int) {
		if v < 144 {
			w.Code(0x30+v, 8)
		} else {
			w.Code(0x190+v-144, 9)
		}
	}
	if r.Pct(25) { // an empty stored block first: nothing produced, bit position moved
		w.Bits(0, 3)
		w.Align()
		w.Buf = append(w.Buf, 0, 0, 0xff, 0xff)
	}
	w.Bits(1|1<<1, 3)
	k := r.Pick(0, 0, 0, 1, 2, 3)
	for i := 0; i < k; i++ {
		lit(r.Intn(256))
	}
	d := k + 1
	if r.Pct(40) {
		d = k + 1 + r.Intn(4-k)
	}
	w.Code(1+r.Intn(8), 7) // length symbols 257..264: lengths 3..10, no extra bits
	w.Code(d-1, 5)         // distance symbols 0..3: distances 1..4, no extra bits
	for i := r.Pick(0, 3, 20, 40, 200, 400, 3000); i > 0; i-- {
		lit(r.Intn(256))
	}
	w.Code(0, 7)
	return scen.InputSpec{Parts: []scen.StreamSpec{{Enc: "lit", Lit: w.Buf}}}
}

func (c03) Gen(r *kern.Rng, tier string, idx int) *Trace {
	sc := &scen.RScen{Pkg: "flate", MaxOut: 32 << 20}
	sc.In = genMalformedInput(r, 100000)
	sc.Src = genSrc(r, true)
	sc.Del = genDelivery(r)
	sc.Reads = genReads(r)
	if r.Pct(30) {
		for i := 1 + r.Intn(2); i > 0; i-- {
			sc.Prior = append(sc.Prior, genPrior(r, "flate"))
		}
	}
	if r.Pct(20) {
		sc.In = genHeaderProbe(r)
	}
	if r.Pct(4) {
		sc.In = genEarlyReach(r)
	}
	tr := &Trace{Property: "C03", Family: "R-malformed", R: sc}
	// truncation sweep: every byte of a small valid stream
	every := 17 // primes: the sweeps spread over all worker shards
	if tier == "thorough" {
		every = 67 // every byte of each swept stream; fewer sweeps, more other runs
	}
	if idx%every == 0 {
		sc.In = scen.InputSpec{Parts: []scen.StreamSpec{genStream(r, "flate", 3000, 0)}}
		sc.Prior = nil
		tr.Sweep, tr.Family = true, "R-trunc(every byte)"
		tr.Stride = 1
		if tier != "thorough" {
			tr.Stride = 0
		}
	}
	return tr
}

// malformedCheck applies C03's oracles to one run.
func malformedCheck(tr *Trace, o *Outcome, rec *scen.RRec, pfx string) {
	sc := tr.R
	feat := rFeatures(sc)
	if rec.Panic != "" {
		o.violate(tr, pfx+".panic", rec.Panic, feat)
		return
	}
	if rec.Livelock {
		o.violate(tr, pfx+".hang", "more than 64 consecutive Reads returned (0, nil)", feat)
		return
	}
	in := rec.Built.Bytes
	rr := ref.Inflate(in, ref.Options{MaxOut: 64 << 20})
	sd := stdInflate(in, nil)
	reachR(o, rr, rec, sc)
	refKind := "EOF"
	switch {
	case rr.TooBig || rec.TooBig:
		o.stat("skipped_output_too_big", 1)
		return
	case rr.Defect != nil:
		refKind = "Corrupt"
		o.stat("defect_"+rr.Defect.Kind, 1)
	case rr.Truncated:
		refKind = "UnexpectedEOF"
		o.stat("inputs_truncated", 1)
	default:
		o.stat("inputs_complete_per_reference", 1)
	}
	feat["ref"] = refKind
	feat["std"] = kindClass(sd.kind)
	if rr.Defect != nil {
		feat["defect"] = rr.Defect.Kind
	}
	if rec.Kind == "EOF" {
		if !rr.Complete {
			o.violate(tr, pfx+".eof_on_malformed", fmt.Sprintf("fastgo returned io.EOF after %d bytes; reference inflater: truncated=%v defect=%v; compress/flate: %s", len(rec.Out), rr.Truncated, rr.Defect, sd.kind), feat)
			return
		}
		if !bytes.Equal(rec.Out, rr.Out) {
			o.violate(tr, pfx+".fabricated_bytes", "fastgo returned io.EOF with output different from the reference: "+diffAt(rec.Out, rr.Out), feat)
			return
		}
	} else {
		if !bytes.HasPrefix(rr.Out, rec.Out) {
			o.violate(tr, pfx+".fabricated_bytes", fmt.Sprintf("bytes handed out before %s are not a prefix of what the reference inflater produces: %s", rec.Kind, diffAt(rec.Out, rr.Out)), feat)
			return
		}
		if sd.kind == "EOF" {
			o.stat("stdlib_accepts_fastgo_rejects(C02 subject)", 1)
		} else {
			allowed := map[string]bool{kindClass(sd.kind): true, refKind: true}
			delete(allowed, "EOF")
			lazy := rr.Lazy()
			if lazy {
				allowed["UnexpectedEOF"], allowed["Corrupt"] = true, true
			}
			if rr.Defect != nil && int(rr.Defect.Bit/8)+512 > len(in) {
				allowed["UnexpectedEOF"] = true // the input may run out before the defect is reached
			}
			if !allowed[rec.Kind] {
				var al []string
				for k := range allowed {
					al = append(al, k)
				}
				o.violate(tr, pfx+".error_kind", fmt.Sprintf("fastgo ended with %v; allowed here: %v (reference: %s defect=%v lazy=%v; compress/flate: %s; input %d bytes)", rec.Err, al, refKind, rr.Defect, lazy, sd.kind, len(in)), feat)
				return
			}
		}
	}
	if ok, why := afterOK(rec); !ok {
		orc := ".not_sticky"
		for _, n := range rec.AfterN {
			if n > 0 {
				orc = ".data_after_error"
			}
		}
		o.violate(tr, pfx+orc, why, feat)
	}
}

func (c03) Exec(tr *Trace, keep bool) *Outcome {
	o := &Outcome{}
	sc := tr.R
	o.Sample = rSample(sc)
	if !tr.Sweep {
		rec, log := runR(sc, true, keep)
		o.Digest = rDigest(rec)
		o.InputHash = inputHash(rec)
		o.LevelIndep = rec.Built != nil && !rec.Built.FastMade
		if rec.Built.BuildErr != "" {
			o.fold(log, false)
			return o
		}
		o.fold(log, len(rec.Built.Bytes) > 0)
		if len(sc.Prior) > 0 {
			o.stat("runs_on_reused_reader", 1)
		}
		malformedCheck(tr, o, rec, "C03")
		return o
	}
	bt := sc.In.Build()
	if bt.BuildErr != "" {
		return o
	}
	o.LevelIndep = !bt.FastMade
	n := len(bt.Bytes)
	o.stat("truncation_sweeps", 1)
	h := uint64(0)
	for _, k := range sweepPositions(n, tr.Stride, 400, 60) {
		c := tr.Clone()
		c.Sweep = false
		c.R.In.Mut = append(c.R.In.Mut, scen.Mutation{K: "trunc", Pos: k - 1})
		rec, log := runR(c.R, true, keep)
		o.fold(log, true)
		h = h*0x100000001b3 ^ rDigest(rec)
		if os.Getenv("FGSIM_DUMP_SWEEP") != "" {
			fmt.Fprintf(os.Stderr, "sweep k=%d out=%d kind=%s digest=%x\n", k-1, len(rec.Out), rec.Kind, rDigest(rec))
		}
		malformedCheck(c, o, rec, "C03")
		if len(o.Violations) > 4 {
			break
		}
	}
	o.Digest = h
	return o
}

func (c03) Shrinks(tr *Trace) []*Trace { return shrinkTraceR(tr) }

// ===================================================================== C04

type c04 struct{}

func init() { register(c04{}) }

func (c04) ID() string           { return "C04" }
func (c04) Runs(tier string) int { return tierLen(tier, 2000, 16000) }

func (c04) Gen(r *kern.Rng, tier string, idx int) *Trace {
	maxLen := tierLen(tier, 200000, 1<<20)
	if r.Pct(50) {
		maxLen = 60000
	}
	base := &scen.RScen{Pkg: "flate", Src: scen.SrcSpec{Kind: "bytes.Reader"}}
	base.In.Parts = []scen.StreamSpec{genStream(r, "flate", maxLen, 30)}
	if r.Pct(35) {
		base.In.Mut = []scen.Mutation{{K: "trunc", Pos: r.Intn(1 << 17)}}
		if r.Pct(30) {
			base.In.Mut[0].Pos = r.Intn(400)
		}
	}
	tr := &Trace{Property: "C04", Family: "R-valid/R-trunc schedules", R: base}
	bt := base.In.Build()
	k := tierLen(tier, 8, 12)
	for i := 0; i < k; i++ {
		v := cloneR(base)
		v.Src = genSrc(r, false)
		if v.Src.Kind != "bufio" && r.Pct(50) {
			v.Src = scen.SrcSpec{Kind: "bufio", Buf: bufSizes[r.Intn(len(bufSizes))]}
		}
		v.Del = genDelivery(r)
		v.Reads = genReads(r)
		switch i {
		case 0:
			v.Del = kern.Delivery{Chunks: []int{1}}
		case 1:
			v.Del.EOFWithData = true
			v.Src = scen.SrcSpec{Kind: "bufio", Buf: 16}
		case 2, 3, 4:
			if bt.BuildErr == "" {
				v.Del.Chunks = aimedChunks(r, bt.Bytes)
			}
		case 5:
			v.Reads = []int{1}
		case 6:
			v.Del = kern.Delivery{Chunks: [][]int{{2}, {3}, {1, 2}, {1, 1, 7}, {5}}[r.Intn(5)]}
		}
		if r.Pct(15) {
			v.Ctor = "reset"
		}
		tr.Rs = append(tr.Rs, v)
	}
	return tr
}

func (c04) Exec(tr *Trace, keep bool) *Outcome {
	o := &Outcome{}
	base, blog := runR(tr.R, true, keep)
	o.Sample = rSample(tr.R) + fmt.Sprintf(" + %d delivery schedules", len(tr.Rs))
	o.Digest = rDigest(base)
	o.InputHash = inputHash(base)
	o.LevelIndep = base.Built != nil && !base.Built.FastMade
	o.fold(blog, false)
	if base.Built.BuildErr != "" {
		return o
	}
	feat := rFeatures(tr.R)
	if base.Panic != "" {
		o.violate(tr, "C04.panic", base.Panic, feat)
		return o
	}
	rr := ref.Inflate(base.Built.Bytes, ref.Options{MaxOut: 64 << 20})
	reachR(o, rr, base, tr.R)
	if feat["truncated"] == "true" {
		o.stat("inputs_truncated", 1)
	}
	for i, v := range tr.Rs {
		rec, log := runR(v, true, keep)
		o.fold(log, len(rec.Built.Bytes) > 0)
		if rec.Src != nil {
			o.stat("source_refills", rec.Src.Calls)
			// refills that landed strictly inside a block header
			if len(v.Del.Chunks) > 0 {
				pos := 0
				for _, c := range v.Del.Chunks {
					if c == 0 {
						break
					}
					pos += c
					for _, b := range rr.Blocks {
						if int64(pos)*8 > b.StartBit && int64(pos)*8 < b.HdrEndBit {
							o.stat("refills_inside_block_header", 1)
						}
					}
				}
			}
		}
		f := rFeatures(v)
		f["truncated"] = feat["truncated"]
		one := &Trace{Property: "C04", Family: tr.Family, R: tr.R, Rs: []*scen.RScen{v}, Level: tr.Level, Seed: tr.Seed, Index: tr.Index}
		if rec.Panic != "" {
			o.violate(one, "C04.panic", rec.Panic, f)
			continue
		}
		if rec.Kind != base.Kind {
			o.violate(one, "C04.error", fmt.Sprintf("schedule %d ends with %v, the all-at-once run with %v (outputs %d vs %d bytes)", i, rec.Err, base.Err, len(rec.Out), len(base.Out)), f)
			continue
		}
		if !bytes.Equal(rec.Out, base.Out) {
			// classify for the known-findings matcher
			d := len(rec.Out) - len(base.Out)
			if d < 0 {
				d = -d
			}
			f["both_prefix_of_reference"] = fmt.Sprint(bytes.HasPrefix(rr.Out, rec.Out) && bytes.HasPrefix(rr.Out, base.Out))
			f["length_diff_le_2"] = fmt.Sprint(d <= 2)
			o.violate(one, "C04.bytes", fmt.Sprintf("schedule %d (src %s/%d chunks %v reads %v) returns %d bytes, the all-at-once run %d; both end with %s: %s", i, v.Src.Kind, v.Src.Buf, clip(v.Del.Chunks), clip(v.Reads), len(rec.Out), len(base.Out), rec.Kind, diffAt(rec.Out, base.Out)), f)
		}
	}
	return o
}

func (c04) Shrinks(tr *Trace) []*Trace {
	var out []*Trace
	// fewer schedules
	if len(tr.Rs) > 1 {
		for i := range tr.Rs {
			c := tr.Clone()
			c.Rs = []*scen.RScen{c.Rs[i]}
			out = append(out, c)
		}
		return out
	}
	// shrink the shared input
	bt := tr.R.In.Build()
	for _, in := range shrinkIn(tr.R.In, bt) {
		c := tr.Clone()
		c.R.In = in
		for _, v := range c.Rs {
			v.In = in
		}
		out = append(out, c)
	}
	// simplify the schedule
	if len(tr.Rs) == 1 {
		for _, v := range shrinkR(tr.Rs[0]) {
			if fmt.Sprint(v.In) != fmt.Sprint(tr.Rs[0].In) {
				continue
			}
			c := tr.Clone()
			c.Rs = []*scen.RScen{v}
			out = append(out, c)
		}
	}
	return out
}

// ===================================================================== C05

type c05 struct{}

func init() { register(c05{}) }

func (c05) ID() string           { return "C05" }
func (c05) Runs(tier string) int { return tierLen(tier, 6000, 40000) }

func (c05) Gen(r *kern.Rng, tier string, idx int) *Trace {
	if idx%193 == 17 {
		// payload-length sweep: the end of the final block meets every bit offset and
		// every phase of the decoder's loops, with enough bytes following the stream
		// for the fast loop to be the one that sees the end
		pkg := r.PickS("flate", "flate", "gzip", "zlib")
		w := &scen.WScen{Pkg: pkg, Ctor: "new", Level: r.Pick(-2, 1, 5, 9, 0), Data: scen.DataSpec{Kind: r.PickS("text", "alpha", "rand", "logcopies"), Seed: r.Uint64(), P1: r.Pick(3, 16), Len: r.Pick(1, 50, 300, 2000, 9000)}}
		if pkg != "flate" {
			w.Ctor = "level"
		}
		w.Ops = []scen.WOp{{K: "w", N: 1 << 30}, {K: "c"}}
		sc := &scen.RScen{Pkg: pkg, Src: scen.SrcSpec{Kind: "bufio", Buf: r.Pick(16, 64, 4096, 4096, 65536)}}
		// the stdlib ends every stream with an empty stored block; fastgo's own Writers
		// set the final bit on a Huffman-coded block, a different end for the decoder
		sc.In.Parts = []scen.StreamSpec{{Enc: r.PickS("std", "fast", "fast"), W: w}}
		if sc.In.Parts[0].Enc == "fast" {
			w.Level = r.Pick(-2, -2, 1, 2)
		}
		sfx := scen.DataSpec{Kind: "rand", Seed: r.Uint64(), Len: r.Pick(1, 8, 24, 64, 64, 300)}
		sc.In.Suffix = &sfx
		if pkg == "gzip" {
			sc.NoMulti, sc.Members = true, 1
		}
		if r.Pct(30) {
			sc.Ctor = "reset"
		}
		return &Trace{Property: "C05", Family: "R-suffix(payload-length sweep)", R: sc, Sweep: true, Stride: tierLen(tier, 300, 900)}
	}
	pkg := []string{"flate", "flate", "gzip", "zlib"}[r.Intn(4)]
	sc := &scen.RScen{Pkg: pkg}
	sc.In.Parts = []scen.StreamSpec{genStream(r, pkg, 80000, 25)}
	if pkg == "gzip" {
		sc.NoMulti = true
		if r.Pct(30) {
			sc.In.Parts = append(sc.In.Parts, genStream(r, pkg, 20000, 25))
		}
		sc.Members = len(sc.In.Parts)
	}
	d := scen.DataSpec{Kind: "rand", Seed: r.Uint64(), Len: r.Pick(0, 1, 2, 7, 8, 9, 100, 4095, 4096, 4097, 70000)}
	if r.Pct(20) {
		d = scen.GenData(r, 70000)
	}
	sc.In.Suffix = &d
	switch r.Weighted(6, 1, 1, 1, 1) {
	case 0:
		sc.Src = scen.SrcSpec{Kind: "bufio", Buf: bufSizes[r.Intn(len(bufSizes))]}
		if sc.Src.Buf > 65536 {
			sc.Src.Buf = 65536
		}
	case 1:
		sc.Src = scen.SrcSpec{Kind: "bytes.Reader"}
	case 2:
		sc.Src = scen.SrcSpec{Kind: "bytes.Buffer"}
	case 3:
		sc.Src = scen.SrcSpec{Kind: "strings.Reader"}
	default:
		sc.Src = scen.SrcSpec{Kind: "bytereader"}
	}
	sc.Del = genDelivery(r)
	sc.Del.EOFWithData = false
	sc.Reads = genReads(r)
	if r.Pct(40) {
		sc.Ctor = "reset"
	}
	if r.Pct(25) {
		// the Reader goes on to another source afterwards; the first source must stay as it was left
		sc.Then = &scen.InputSpec{Parts: []scen.StreamSpec{genStream(r, pkg, 5000, 0)}}
	}
	if r.Pct(8) {
		// the stream ends in a tiny block of a kind no Go writer emits last (a stored block of 1..5 bytes, a fixed
		// block of a few symbols): whole bytes may still sit in the decoder's bit buffer when it sees the end
		p := genSynthParams(r, 300)
		p.AimOut, p.AimOff = 0, 0
		p.OutLen = r.Pick(1, 1, 2, 2, 3, 5, 40, 300)
		p.MaxBlocks = r.Pick(1, 1, 2, 3)
		p.TypeWeights = [][3]int{{1, 0, 0}, {1, 0, 0}, {0, 1, 0}, {2, 1, 1}}[r.Intn(4)]
		p.EmptyPct, p.SyncPct = 0, 0
		sp := scen.StreamSpec{Enc: "synth", Synth: p, SynthSeed: r.Uint64()}
		if pkg != "flate" {
			sp.Wrap = pkg
		}
		sc.In.Parts[len(sc.In.Parts)-1] = sp
	}
	return &Trace{Property: "C05", Family: "R-suffix", R: sc}
}

func (c05) Exec(tr *Trace, keep bool) *Outcome {
	if tr.Sweep {
		o := &Outcome{LevelIndep: true}
		o.stat("payload_length_sweeps", 1)
		h := uint64(0)
		for d := 0; d < tr.Stride; d++ {
			c := tr.Clone()
			c.Sweep, c.Stride = false, 0
			c.R.In.Parts[0].W.Data.Len = tr.R.In.Parts[0].W.Data.Len + d
			so := c05{}.Exec(c, keep)
			o.Evals += so.Evals
			o.Events += so.Events
			o.LogHash = o.LogHash*0x100000001b3 ^ so.LogHash
			if len(o.Sigs) < 16 {
				o.Sigs = append(o.Sigs, so.Sigs...)
			}
			h = h*0x100000001b3 ^ so.Digest
			for k, v := range so.Stats {
				o.stat(k, v)
			}
			o.Violations = append(o.Violations, so.Violations...)
			if len(o.Violations) > 3 {
				break
			}
		}
		o.Digest = h
		o.Sample = rSample(tr.R) + fmt.Sprintf(" (payload lengths %d..%d)", tr.R.In.Parts[0].W.Data.Len, tr.R.In.Parts[0].W.Data.Len+tr.Stride-1)
		return o
	}
	o := &Outcome{}
	sc := tr.R
	rec, log := runR(sc, true, keep)
	feat := rFeatures(sc)
	o.Digest = rDigest(rec)
	o.InputHash = inputHash(rec)
	o.LevelIndep = rec.Built != nil && !rec.Built.FastMade
	o.Sample = rSample(sc)
	if rec.Built.BuildErr != "" {
		o.fold(log, false)
		return o
	}
	suffix := sc.In.Suffix.Bytes()
	feat["group"] = feat["pkg"] + "/" + feat["srckind"] + feat["bufclass"] + "/" + feat["ctor"]
	o.fold(log, len(suffix) > 0)
	if rec.Panic != "" {
		o.violate(tr, "C05.panic", rec.Panic, feat)
		return o
	}
	o.stat("src_"+sc.Src.Kind, 1)
	o.stat("pkg_"+sc.Pkg, 1)
	if sc.Pkg == "flate" {
		rr := ref.Inflate(rec.Built.Bytes, ref.Options{})
		if rr.Complete {
			o.stat(fmt.Sprintf("final_bit_offset_%d", rr.EndBit%8), 1)
		}
	}
	// the stream itself must have been read to a clean end
	if rec.Kind != "EOF" {
		o.stat("runs_not_reaching_clean_end", 1)
		return o
	}
	if !rec.SrcRestKnown {
		return o
	}
	if rec.ThenDone {
		o.stat("runs_with_later_reset_to_another_source", 1)
		feat["then"] = "true"
	}
	if !bytes.Equal(rec.SrcRest, suffix) {
		o.violate(tr, "C05.position", fmt.Sprintf("after io.EOF the source holds %d bytes, expected the %d-byte suffix: %s", len(rec.SrcRest), len(suffix), diffAt(rec.SrcRest, suffix)), feat)
	}
	return o
}

func (c05) Shrinks(tr *Trace) []*Trace {
	var out []*Trace
	for _, t := range shrinkTraceR(tr) {
		if t.R.In.Suffix == nil || (len(t.R.In.Parts) == 1 && t.R.In.Parts[0].Enc == "lit" && tr.R.In.Parts[0].Enc != "lit") {
			continue // keep the stream/suffix structure
		}
		if t.R.Src.Kind != tr.R.Src.Kind {
			continue
		}
		out = append(out, t)
	}
	return out
}

// ===================================================================== C13

type c13 struct{}

func init() { register(c13{}) }

func (c13) ID() string           { return "C13" }
func (c13) Runs(tier string) int { return tierLen(tier, 5000, 40000) }

// genTablesHistory: earlier uses that leave the decoder's code tables in each
// kind of state (fixed tables loaded, dynamic tables built, a dynamic header
// rejected half-way by each kind of header fault), then a small valid stream
// that starts with a chosen block type.
func genTablesHistory(r *kern.Rng) *scen.RScen {
	sc := &scen.RScen{Pkg: "flate", MaxOut: 32 << 20}
	mk := func(tw [3]int, fault string) *ref.SynthParams {
		p := genSynthParams(r, 3000)
		p.AimOut, p.AimOff = 0, 0
		p.TypeWeights = tw
		p.MaxBlocks = r.Pick(1, 2, 3)
		p.MatchPct = r.Pick(20, 50, 80)
		p.EmptyPct, p.SyncPct = 0, r.Pick(0, 0, 30)
		p.Fault = fault
		if fault != "" {
			p.FaultBlock = r.Intn(p.MaxBlocks)
			p.TailGarbage = r.Pick(0, 600)
		}
		return p
	}
	kinds := [][3]int{{0, 1, 0}, {0, 0, 1}, {0, 1, 1}, {1, 1, 1}}
	prior := func(p *ref.SynthParams) scen.Prior {
		return scen.Prior{Take: -1, Close: r.Pct(30), In: scen.InputSpec{Parts: []scen.StreamSpec{{Enc: "synth", Synth: p, SynthSeed: r.Uint64()}}}}
	}
	if r.Pct(70) {
		sc.Prior = append(sc.Prior, prior(mk(kinds[r.Intn(len(kinds))], "")))
	}
	hdrFaults := []string{ref.FaultOversub, ref.FaultOversubDist, ref.FaultOversubCL, ref.FaultRunPast, ref.FaultRepeatFirst, ref.FaultNoEOB, ref.FaultUnassigned, ref.FaultNoDistButUsed, ref.FaultBadLenSym, ref.FaultBadDistSym, ref.FaultStoredLen, ref.FaultReservedType}
	for i := r.Pick(1, 1, 2); i > 0; i-- {
		sc.Prior = append(sc.Prior, prior(mk(kinds[r.Intn(len(kinds))], hdrFaults[r.Intn(len(hdrFaults))])))
	}
	fin := mk(kinds[r.Intn(3)], "")
	fin.OutLen = r.Pick(10, 40, 300, 3000)
	sc.In.Parts = []scen.StreamSpec{{Enc: "synth", Synth: fin, SynthSeed: r.Uint64()}}
	sc.Src = genSrc(r, false)
	sc.Del = genDelivery(r)
	sc.Reads = genReads(r)
	return sc
}

func (c13) Gen(r *kern.Rng, tier string, idx int) *Trace {
	pkg := []string{"flate", "flate", "flate", "gzip", "zlib"}[r.Intn(5)]
	if pkg == "flate" && r.Pct(20) {
		return &Trace{Property: "C13", Family: "R-reset(code-table states)", R: genTablesHistory(r)}
	}
	sc := &scen.RScen{Pkg: pkg, MaxOut: 32 << 20}
	for i := 1 + r.Intn(3); i > 0; i-- {
		p := genPrior(r, pkg)
		if pkg == "zlib" && r.Pct(30) {
			// earlier stream with a dictionary
			w := genContainerW(r, "zlib", 20000)
			w.Ctor = "dict"
			d := scen.GenData(r, 5000)
			w.Dict = &d
			w.Ops = GenOps(r, w.Data.Len, 0, 20)
			p.In = scen.InputSpec{Parts: []scen.StreamSpec{{Enc: "std", W: w}}}
			p.Dict = &d
			switch r.Weighted(6, 2, 2) {
			case 1:
				// the earlier Reset FAILS: wrong dictionary (ErrDictionary after the DICTID was read)
				wrong := d
				wrong.Seed ^= 0xa5a5
				wrong.Kind, wrong.Len = "rand", 40
				p.Dict = &wrong
			case 2:
				// ... or the container is cut inside its header / DICTID
				p.In.Mut = []scen.Mutation{{K: "trunc", Pos: r.Pick(1, 2, 3, 4, 5)}}
			}
		}
		sc.Prior = append(sc.Prior, p)
	}
	switch r.Weighted(5, 3, 2) {
	case 0:
		sc.In.Parts = []scen.StreamSpec{genStream(r, pkg, 100000, 0)}
	case 1:
		// back-references that reach before the start of the new stream
		p := genSynthParams(r, 3000)
		p.Fault = ref.FaultDistTooFar
		p.FaultBlock = 0
		p.TailGarbage = r.Pick(0, 600)
		if r.Pct(50) {
			p.OutLen = r.Pick(1, 2, 10, 100)
			p.MaxBlocks = 1
		}
		sp := scen.StreamSpec{Enc: "synth", Synth: p, SynthSeed: r.Uint64()}
		if pkg != "flate" {
			sp.Wrap = pkg
		}
		sc.In.Parts = []scen.StreamSpec{sp}
	default:
		if pkg == "flate" {
			sc.In = genMalformedInput(r, 50000)
		} else {
			sc.In.Parts = []scen.StreamSpec{genStream(r, pkg, 50000, 0)}
			sc.In.Mut = []scen.Mutation{{K: "flip", Pos: r.Intn(1 << 16)}}
		}
	}
	if pkg == "zlib" && r.Pct(35) {
		// the new stream uses a dictionary passed to Reset
		w := genContainerW(r, "zlib", 20000)
		w.Ctor = "dict"
		d := scen.GenData(r, 5000)
		if d.Len == 0 {
			d.Len = 10
		}
		w.Dict = &d
		w.Data = d
		w.Data.Len = scen.GenLen(r, 20000)
		w.Ops = GenOps(r, w.Data.Len, 0, 20)
		sc.In = scen.InputSpec{Parts: []scen.StreamSpec{{Enc: "std", W: w}}}
		sc.Dict = &d
		if r.Pct(12) {
			// the wrong dictionary: both a fresh and a reset Reader must say ErrDictionary
			wrong := d
			wrong.Seed ^= 0x5a5a
			wrong.Kind = "rand"
			sc.Dict = &wrong
		}
	}
	if pkg == "zlib" && sc.Dict == nil && r.Pct(25) {
		// a dictionary handed to Reset although the stream does not refer to one:
		// NewReaderDict ignores it, so must Reset
		d := scen.GenData(r, 3000)
		if d.Len < 8 {
			d.Len = 64
		}
		sc.Dict = &d
	}
	sc.Src = genSrc(r, false)
	sc.Del = genDelivery(r)
	sc.Reads = genReads(r)
	return &Trace{Property: "C13", Family: "R-reset", R: sc}
}

func (c13) Exec(tr *Trace, keep bool) *Outcome {
	o := &Outcome{}
	sc := tr.R
	fresh := cloneR(sc)
	fresh.Prior, fresh.Ctor = nil, ""
	rec, log := runR(sc, true, keep)
	frec, flog := runR(fresh, true, keep)
	feat := rFeatures(sc)
	o.Digest = rDigest(rec)
	o.InputHash = inputHash(rec)
	o.LevelIndep = rec.Built != nil && !rec.Built.FastMade
	o.Sample = rSample(sc)
	o.fold(log, len(sc.Prior) > 0)
	o.fold(flog, false)
	if rec.Built.BuildErr != "" {
		return o
	}
	if rec.Panic != "" {
		if frec.Panic == "" {
			o.violate(tr, "C13.panic", rec.Panic, feat)
		}
		return o
	}
	if frec.Panic != "" {
		o.stat("fresh_reader_panicked(C03 subject)", 1)
		return o
	}
	o.stat("pkg_"+sc.Pkg, 1)
	if sc.Dict != nil {
		o.stat("reset_with_dictionary", 1)
		feat["dict"] = "true"
	}
	for _, p := range sc.Prior {
		if p.Take >= 0 {
			o.stat("prior_abandoned_midstream", 1)
		} else if len(p.In.Mut) > 0 {
			o.stat("prior_ended_in_error", 1)
		} else {
			o.stat("prior_read_to_eof", 1)
		}
	}
	if rec.Kind != frec.Kind {
		orc := "C13.error"
		if sc.Dict != nil {
			orc = "C13.dict"
		}
		o.violate(tr, orc, fmt.Sprintf("after Reset the Reader ends with %v (%d bytes), a fresh Reader with %v (%d bytes)", rec.Err, len(rec.Out), frec.Err, len(frec.Out)), feat)
		return o
	}
	if !bytes.Equal(rec.Out, frec.Out) {
		o.violate(tr, "C13.bytes", "output after Reset differs from a fresh Reader's: "+diffAt(rec.Out, frec.Out), feat)
		return o
	}
	// independent: nothing from an earlier stream may appear
	if sc.Pkg == "flate" {
		rr := ref.Inflate(rec.Built.Bytes, ref.Options{MaxOut: 64 << 20})
		if rr.Defect != nil {
			o.stat("next_input_defect_"+rr.Defect.Kind, 1)
		}
		if !rr.TooBig && !rec.TooBig && !bytes.HasPrefix(rr.Out, rec.Out) {
			o.violate(tr, "C13.bytes", "output after Reset is not a prefix of the reference inflater's output for the new input: "+diffAt(rec.Out, rr.Out), feat)
		}
	}
	return o
}

func (c13) Shrinks(tr *Trace) []*Trace {
	var out []*Trace
	for _, t := range shrinkTraceR(tr) {
		if len(t.R.Prior) == 0 {
			continue
		}
		out = append(out, t)
	}
	return out
}

// ===================================================================== C15

type c15 struct{}

func init() { register(c15{}) }

func (c15) ID() string           { return "C15" }
func (c15) Runs(tier string) int { return tierLen(tier, 400, 320) }

func (c15) Gen(r *kern.Rng, tier string, idx int) *Trace {
	pkg := []string{"flate", "flate", "gzip", "zlib"}[r.Intn(4)]
	sc := &scen.RScen{Pkg: pkg}
	maxLen := 30000
	if r.Pct(60) {
		maxLen = 600
	}
	sc.In.Parts = []scen.StreamSpec{genStream(r, pkg, maxLen, 0)}
	if pkg == "gzip" && r.Pct(30) {
		sc.In.Parts = append(sc.In.Parts, genStream(r, pkg, 600, 0))
	}
	sc.Src = genSrc(r, false)
	sc.Del = genDelivery(r)
	sc.Del.EOFWithData = false
	sc.Reads = genReads(r)
	if r.Pct(20) {
		sc.Ctor = "reset"
	}
	tr := &Trace{Property: "C15", Family: "R-fault", R: sc, Sweep: true, Stride: 1}
	if tier != "thorough" {
		tr.Stride = 0
	}
	return tr
}

func c15Check(tr *Trace, o *Outcome, rec *scen.RRec, payload []byte, need int) {
	sc := tr.R
	feat := rFeatures(sc)
	k := sc.Del.FailAfter
	if rec.Panic != "" {
		o.violate(tr, "C15.panic", rec.Panic, feat)
		return
	}
	if rec.Src == nil || rec.Src.ErrGiven == 0 {
		o.stat("fault_not_reached", 1)
		if k < need {
			o.violate(tr, "C15.wrong_error", fmt.Sprintf("the source never got to report its error although only %d of the %d needed bytes were delivered; Reader ended with %v", k, need, rec.Err), feat)
		}
		return
	}
	o.stat("source_faults_fired", 1)
	if sc.Del.ErrWithData {
		o.stat("source_faults_with_data", 1)
	}
	feat["k_ge_need"] = fmt.Sprint(k >= need)
	if !bytes.HasPrefix(payload, rec.Out) {
		o.violate(tr, "C15.not_prefix", fmt.Sprintf("bytes returned before the error are not a prefix of the payload (fault after %d bytes): %s", k, diffAt(rec.Out, payload)), feat)
		return
	}
	if k >= need {
		// everything the format needs was delivered before the failure: a clean
		// end with the complete payload, or the injected error after a prefix
		if rec.Kind == "EOF" {
			if !bytes.Equal(rec.Out, payload) {
				o.violate(tr, "C15.eof_instead", fmt.Sprintf("io.EOF with %d of %d payload bytes", len(rec.Out), len(payload)), feat)
			}
			return
		}
	}
	if rec.Kind == "EOF" {
		o.violate(tr, "C15.eof_instead", fmt.Sprintf("source failed after %d of %d needed bytes but the Reader returned io.EOF (%d bytes out)", k, need, len(rec.Out)), feat)
		return
	}
	if rec.Kind != "injected" {
		o.violate(tr, "C15.wrong_error", fmt.Sprintf("source failed after %d bytes (needed %d, with_data=%v); the Reader returned %v instead of the source's error", k, need, sc.Del.ErrWithData, rec.Err), feat)
		return
	}
	if ok, why := afterOK(rec); !ok {
		o.violate(tr, "C15.not_sticky", why, feat)
	}
}

func (c15) Exec(tr *Trace, keep bool) *Outcome {
	o := &Outcome{}
	sc := tr.R
	o.Sample = rSample(sc)
	bt := sc.In.Build()
	if bt.BuildErr != "" {
		return o
	}
	o.LevelIndep = !bt.FastMade
	// ground truth with the standard library
	clean := cloneR(sc)
	clean.Del.HasFail = false
	srec, _ := runR(clean, false, false)
	if srec.Kind != "EOF" || srec.Panic != "" {
		o.stat("skipped_stdlib_rejects_input", 1)
		return o
	}
	payload := srec.Out
	need := len(bt.Bytes)
	if sc.Pkg == "flate" {
		if rr := ref.Inflate(bt.Bytes, ref.Options{}); rr.Complete {
			need = rr.EndByte
		}
	}
	if !tr.Sweep {
		rec, log := runR(sc, true, keep)
		o.fold(log, true)
		o.Digest = rDigest(rec)
		c15Check(tr, o, rec, payload, need)
		return o
	}
	o.stat("workloads", 1)
	n := len(bt.Bytes)
	ks := sweepPositions(n+1, tr.Stride, 512, 48)
	if len(ks) == n+1 {
		o.stat("workloads_with_every_k", 1)
	}
	h := uint64(0)
	for i, k1 := range ks {
		c := tr.Clone()
		c.Sweep = false
		c.R.Del.HasFail, c.R.Del.FailAfter, c.R.Del.ErrWithData = true, k1-1, i%2 == 1
		c.R.Del.ErrWrapsEOF = i%3 == 2 // "forall error values": one that wraps io.EOF without being it
		rec, log := runR(c.R, true, keep)
		o.fold(log, rec.Src != nil && rec.Src.ErrGiven > 0)
		h = h*0x100000001b3 ^ rDigest(rec)
		c15Check(c, o, rec, payload, need)
		if len(o.Violations) > 4 {
			break
		}
	}
	o.Digest = h
	return o
}

func (c15) Shrinks(tr *Trace) []*Trace {
	var out []*Trace
	for _, t := range shrinkTraceR(tr) {
		if len(t.R.In.Parts) == 1 && t.R.In.Parts[0].Enc == "lit" {
			continue // keep an encoder so the payload stays known
		}
		out = append(out, t)
	}
	if tr.R.Del.HasFail {
		for _, k := range []int{0, tr.R.Del.FailAfter / 2, tr.R.Del.FailAfter - 1} {
			if k >= 0 && k != tr.R.Del.FailAfter {
				c := tr.Clone()
				c.R.Del.FailAfter = k
				out = append(out, c)
			}
		}
	}
	return out
}

// ===================================================================== C18

type c18 struct{}

func init() { register(c18{}) }

func (c18) ID() string           { return "C18" }
func (c18) Runs(tier string) int { return tierLen(tier, 10000, 80000) }

func (c18) Gen(r *kern.Rng, tier string, idx int) *Trace {
	if idx%191 == 13 {
		// content sweep for the per-level token encoders (see C01): judged at the forced level
		sc := &scen.WScen{Pkg: "flate", Guard: true, Ctor: r.PickS("new", "new", "4k"), Level: r.Pick(1, 2, -1)}
		sc.Data = scen.DataSpec{Kind: "logcopies", Seed: r.Uint64(), P1: r.Pick(0, 1), Len: r.Range(150000, 320000)}
		sc.Ops = []scen.WOp{{K: "w", N: 1 << 30}, {K: "c"}}
		stride, note := contentSweepKind(r, tier, sc)
		return &Trace{Property: "C18", Family: "W-plain(content sweep) at the forced level", W: sc, Sweep: true, Stride: stride, Note: note}
	}
	if idx%5 == 4 {
		// "at every level the compressor's output satisfies all the other
		// properties": a Writer history checked with C01's and C19's oracles at
		// the forced level (reported under C18)
		sc := genFlateW(r, 150000)
		if sc.Ctor == "dict" {
			sc.Ctor, sc.Dict = "new", nil // delegated to the stdlib: level-independent, and C01's subject
		}
		if r.Pct(80) {
			sc.Level = r.Pick(1, 2, -1, -2)
		}
		if r.Pct(40) {
			sc.Data.Kind = r.PickS("periodic", "runs", "copies", "text")
			sc.Data.P1 = r.Pick(1, 2, 3, 4, 5, 7, 8, 100, 259, 300, 4097)
		}
		sc.Ops = GenOps(r, sc.Data.Len, r.Pick(0, 0, 10, 40), 100)
		return &Trace{Property: "C18", Family: "W-plain at the forced level", W: sc}
	}
	pkg := "flate"
	if r.Pct(20) {
		pkg = r.PickS("gzip", "zlib")
	}
	sc := &scen.RScen{Pkg: pkg, MaxOut: 32 << 20}
	switch r.Weighted(3, 5, 2) {
	case 0:
		sc.In.Parts = []scen.StreamSpec{genStream(r, pkg, 150000, 0)}
	case 1:
		if pkg == "flate" {
			sc.In = genMalformedInput(r, 100000)
			// long enough for the assembly loop: faults after plenty of input
			if r.Pct(50) && len(sc.In.Parts) == 1 && sc.In.Parts[0].Synth != nil {
				sc.In.Parts[0].Synth.OutLen = 5000 + r.Intn(60000)
				sc.In.Parts[0].Synth.TailGarbage = 3000
			}
		} else {
			sc.In.Parts = []scen.StreamSpec{genStream(r, pkg, 60000, 0)}
			sc.In.Mut = []scen.Mutation{{K: "flip", Pos: r.Intn(1 << 18)}}
		}
	default:
		sc.In.Parts = []scen.StreamSpec{genStream(r, pkg, 100000, 0)}
		sc.In.Mut = []scen.Mutation{{K: "trunc", Pos: r.Intn(1 << 16)}}
	}
	sc.Src = genSrc(r, true)
	sc.Del = genDelivery(r)
	sc.Reads = genReads(r)
	if pkg == "flate" && r.Pct(15) {
		sc.Prior = []scen.Prior{genPrior(r, "flate")}
	}
	if pkg == "flate" && r.Pct(4) {
		sc.In = genEarlyReach(r)
	}
	tr := &Trace{Property: "C18", Family: "R-* cross-level", R: sc}
	every := 41
	if tier == "thorough" {
		every = 199
	}
	if idx%every == 7 {
		// every truncation point of a small valid stream, at every level
		sc.In = scen.InputSpec{Parts: []scen.StreamSpec{genStream(r, pkg, 3000, 0)}}
		sc.Prior = nil
		tr.Sweep, tr.Stride, tr.Family = true, 1, "R-trunc(every byte) cross-level"
		if tier != "thorough" {
			tr.Stride = 0
		}
	}
	return tr
}

// noteSub records one (sub-)run for the parent's level-difference explanation.
func noteSub(o *Outcome, k int, rec *scen.RRec) {
	if !ExplainMode || rec == nil || rec.Built == nil {
		return
	}
	sr := SubResult{K: k, Kind: kindClass(rec.Kind), OutLen: len(rec.Out), Digest: rDigest(rec)}
	in := rec.Built.Bytes
	// the flate part of a container starts after its header; for the explanation
	// only raw flate inputs are classified against the reference inflater
	rr := ref.Inflate(in, ref.Options{MaxOut: 64 << 20})
	sr.RefPrefix = !rr.TooBig && bytes.HasPrefix(rr.Out, rec.Out)
	sr.RefTrunc = rr.Truncated && rr.Defect == nil
	o.Subs = append(o.Subs, sr)
}

func (c18) Exec(tr *Trace, keep bool) *Outcome {
	if tr.W != nil && tr.Sweep {
		o := lengthSweep(tr, keep, func(c *Trace) *Outcome { return c18{}.Exec(c, keep) })
		o.LevelIndep = false
		return o
	}
	if tr.W != nil {
		inner := tr.Clone()
		inner.Property = "C01"
		o := c01{}.Exec(inner, keep)
		o.LevelIndep = false // the compressor may choose different matches per level
		for i := range o.Violations {
			o.Violations[i].Oracle = "C18.compressor_" + o.Violations[i].Oracle[4:]
			if t := o.Violations[i].Trace; t != nil {
				t.Property, t.Oracle = "C18", o.Violations[i].Oracle
			}
		}
		// window bound at this level
		if len(o.Violations) == 0 {
			c := tr.Clone()
			c.Property = "C19"
			o19 := c19{}.Exec(c, false)
			for _, v := range o19.Violations {
				v.Oracle = "C18.compressor_" + v.Oracle[4:]
				if v.Trace != nil {
					v.Trace.Property, v.Trace.Oracle = "C18", v.Oracle
				}
				o.Violations = append(o.Violations, v)
			}
		}
		o.stat("compressor_runs_at_forced_level", 1)
		return o
	}
	o := &Outcome{}
	sc := tr.R
	if tr.Sweep {
		bt := sc.In.Build()
		o.Sample = rSample(sc) + " (every truncation point)"
		if bt.BuildErr != "" {
			return o
		}
		o.LevelIndep = !bt.FastMade
		o.stat("truncation_sweeps", 1)
		h := uint64(0)
		for _, k := range sweepPositions(len(bt.Bytes), tr.Stride, 400, 60) {
			c := cloneR(sc)
			c.In.Mut = append(c.In.Mut, scen.Mutation{K: "trunc", Pos: k - 1})
			rec, log := runR(c, true, keep)
			o.fold(log, true)
			h = h*0x100000001b3 ^ rDigest(rec)
			noteSub(o, k-1, rec)
			o.stat("ended_"+kindClass(rec.Kind), 1)
		}
		o.Digest = h
		return o
	}
	rec, log := runR(sc, true, keep)
	o.Digest = rDigest(rec)
	o.InputHash = inputHash(rec)
	o.LevelIndep = rec.Built != nil && !rec.Built.FastMade && rec.Built.BuildErr == ""
	o.Sample = rSample(sc)
	o.fold(log, rec.Built != nil && len(rec.Built.Bytes) > 24)
	noteSub(o, -1, rec)
	o.stat("ended_"+kindClass(rec.Kind), 1)
	if rec.Panic != "" {
		o.stat("panics(C03 subject; still compared across levels)", 1)
	}
	if rec.Built != nil && len(rec.Built.Bytes) > 24 && len(rec.Out) > 274 {
		o.stat("runs_eligible_for_assembly_loop", 1)
	}
	return o
}

func (c18) Shrinks(tr *Trace) []*Trace {
	if tr.W != nil {
		return shrinkTraceW(tr)
	}
	return shrinkTraceR(tr)
}
