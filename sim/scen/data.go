// Package scen defines the explicit, replayable scenario descriptions
// (traces) and executes them against fastgo (or the stdlib model) through the
// simulated seams of package kern.
package scen

import (
	"fgverif/kern"
)

// DataSpec describes payload bytes compactly; Bytes() is a pure function of
// it. Lit wins when present (used after minimisation).
type DataSpec struct {
	Kind string `json:"kind,omitempty"`
	Seed uint64 `json:"seed,omitempty"`
	Len  int    `json:"len"`
	P1   int    `json:"p1,omitempty"`
	P2   int    `json:"p2,omitempty"`
	Lit  []byte `json:"lit,omitempty"`
}

var DataKinds = []string{"rand", "alpha", "text", "runs", "periodic", "copies", "fib", "allbytes", "zeros", "edge4k", "edge32k", "logcopies", "head_run", "geo", "headtail", "dyadic", "heavyburst", "mixed"}

var words = []string{"the ", "of ", "and ", "compress", "ion ", "window ", "deflate ", "block ", "huffman ", "a ", "to ", "in ", "stream", "\n", "0123456789", "   ", "ing ", "tion", "er ", "Intel ", "fastgo "}

func (d DataSpec) Bytes() []byte {
	if d.Lit != nil {
		return d.Lit
	}
	n := d.Len
	if n <= 0 {
		return []byte{}
	}
	r := kern.NewRng(d.Seed ^ 0xda7a)
	b := make([]byte, 0, n)
	switch d.Kind {
	case "zeros":
		return make([]byte, n)
	case "alpha": // P1 symbols
		k := d.P1
		if k < 1 {
			k = 2
		}
		al := r.Bytes(k)
		for len(b) < n {
			b = append(b, al[r.Intn(k)])
		}
	case "text":
		for len(b) < n {
			b = append(b, words[r.Intn(len(words))]...)
		}
	case "runs": // runs of length around P1
		m := d.P1
		if m < 1 {
			m = 300
		}
		for len(b) < n {
			c := byte(r.Intn(256))
			l := 1 + r.Intn(2*m)
			for i := 0; i < l; i++ {
				b = append(b, c)
			}
		}
	case "periodic": // period P1
		p := d.P1
		if p < 1 {
			p = 7
		}
		pat := r.Bytes(p)
		for len(b) < n {
			b = append(b, pat...)
		}
	case "copies": // random with copies at distance around P1 (exact, ±1)
		dist := d.P1
		if dist < 1 {
			dist = 100
		}
		for len(b) < n {
			dd := dist + r.Intn(3) - 1
			if len(b) >= dd && dd > 0 && r.Intn(3) > 0 {
				l := 4 + r.Intn(300)
				s := len(b) - dd
				for i := 0; i < l; i++ {
					b = append(b, b[s+i])
				}
			} else {
				b = append(b, r.Bytes(1+r.Intn(40))...)
			}
		}
	case "fib": // symbol counts 1,2,3,5,8,... (shuffled): forces code lengths beyond 15 bits from 16 symbols on. (The series
		// 1,1,2,3,... does NOT with fastgo: with end-of-block it ties at every merge and fastgo's generator resolves
		// ties towards the bushy optimal tree, depth about k/2.)
		k := d.P1
		if k < 2 {
			k = 30
		}
		// largest k' <= k whose counts fit in n
		a, c, sum, kk := 1, 2, 0, 0
		for kk < k && sum+a <= n {
			sum += a
			a, c = c, a+c
			kk++
		}
		if kk < 2 {
			kk = 2
		}
		a, c = 1, 2
		for i := 0; i < kk && len(b) < n; i++ {
			for j := 0; j < a && len(b) < n; j++ {
				b = append(b, byte(i*7+3))
			}
			a, c = c, a+c
		}
		for len(b) < n {
			b = append(b, byte((kk-1)*7+3))
		}
		for i := len(b) - 1; i > 0; i-- {
			j := r.Intn(i + 1)
			b[i], b[j] = b[j], b[i]
		}
		if d.P2 > 0 {
			// variant: the data END in (about) P2 bytes of the rarest symbols, i.e. the
			// longest codes of the block are the last ones before end-of-block
			t, cum := 0, 0
			for fa, fc := 1, 2; t < kk-1 && cum < d.P2; t++ {
				cum += fa
				fa, fc = fc, fa+fc
			}
			head, tail := make([]byte, 0, len(b)), []byte{}
			for _, x := range b {
				if x >= 3 && (int(x)-3)%7 == 0 && (int(x)-3)/7 < t {
					tail = append(tail, x)
				} else {
					head = append(head, x)
				}
			}
			b = append(head, tail...)
		}
	case "geo": // P1 symbols whose counts grow geometrically (ratio P2/10) in tie groups of 1..3 equal counts, shuffled:
		// many shapes of skewed histograms for the code-length generator and its 15-bit limiter
		k, ratio := d.P1, float64(d.P2)/10
		if k < 2 {
			k = 2
		}
		if k > 256 {
			k = 256
		}
		if ratio < 1.05 {
			ratio = 1.5
		}
		g := 1 + int(d.Seed%3)
		perm := r.Bytes(256)
		syms := make([]byte, 256)
		for i := range syms {
			syms[i] = byte(i)
		}
		for i := 255; i > 0; i-- {
			j := int(perm[i]) % (i + 1)
			syms[i], syms[j] = syms[j], syms[i]
		}
		cnt, sum := 1.0, 0
		last := byte(0)
		for j := 0; j < k && sum < n; j++ {
			if j > 0 && j%g == 0 {
				cnt *= ratio
			}
			c := int(cnt)
			if c > n-sum {
				c = n - sum
			}
			for i := 0; i < c; i++ {
				b = append(b, syms[j])
			}
			sum += c
			last = syms[j]
		}
		for len(b) < n {
			b = append(b, last)
		}
		for i := len(b) - 1; i > 0; i-- {
			j := r.Intn(i + 1)
			b[i], b[j] = b[j], b[i]
		}
	case "headtail": // steep head (P1 symbols, counts scale*(1,2,3,5,...) or scale*2^i) plus a flat tail of P2 symbols that
		// occur 1..3 times: optimal depth = head depth + log2(tail), the limiter has to pull a whole subtree up
		cnts := headTailCounts(d)
		perm := r.Bytes(256)
		syms := make([]byte, 256)
		for i := range syms {
			syms[i] = byte(i)
		}
		if d.Seed&8 != 0 { // shuffled symbol values (few equal neighbouring code lengths) or ascending ones
			for i := 255; i > 0; i-- {
				j := int(perm[i]) % (i + 1)
				syms[i], syms[j] = syms[j], syms[i]
			}
		}
		for j, c := range cnts {
			for i := 0; i < c && len(b) < n; i++ {
				b = append(b, syms[j%256])
			}
		}
		for len(b) < n {
			b = append(b, syms[(len(cnts)-1)%256]) // the most frequent head symbol is the last one listed
		}
		for i := len(b) - 1; i > 0; i-- {
			j := r.Intn(i + 1)
			b[i], b[j] = b[j], b[i]
		}
	case "dyadic": // byte counts 2^(D-l): with end-of-block (count 1) the weights sum to 2^D, so the optimal code of a
		// Huffman-only block has exactly the code lengths l drawn here (a spine of depth D=P1 whose side branches are
		// complete bushes of random height; P2=1: designed numbers of symbols per length; P2=2: chain shape, see dyadicLens). Controls the histogram of the code-LENGTH alphabet (7-bit limiter, HCLEN).
		lens := dyadicLens(d, r)
		D := 0
		for _, l := range lens {
			if l > D {
				D = l
			}
		}
		for k, l := range lens {
			if l == 0 {
				continue
			}
			for j := 0; j < 1<<uint(D-l) && len(b) < n; j++ {
				b = append(b, byte(k))
			}
		}
		last := byte(0)
		if len(b) > 0 {
			last = b[0]
		}
		for len(b) < n {
			b = append(b, last)
		}
		if d.Seed&16 != 0 {
			for i := len(b) - 1; i > 0; i-- {
				j := r.Intn(i + 1)
				b[i], b[j] = b[j], b[i]
			}
		}
	case "heavyburst": // P1 fresh bytes, then rounds of (odd Seed: one round, then filler only): a burst of P2 long copies (131..257 bytes) from 4100..32700 bytes back,
		// cheap filler (4 fresh bytes + the same 4 again) that keeps the symbols of the far copies rare (long codes), and a
		// fresh run. Every far copy costs well over 28 bits: 16-token batches of maximal width at arbitrary phases of
		// the encoder's output-buffer hand-over.
		var starts []int
		fresh := func(k int) {
			for i := 0; i < k && len(b) < n; i++ {
				if i%16 == 0 {
					starts = append(starts, len(b))
				}
				b = append(b, byte(r.Intn(256)))
			}
		}
		fresh(d.P1)
		heavy := d.P2
		if heavy < 1 {
			heavy = 40
		}
		for len(b) < n {
			if d.Seed&1 != 0 && len(b) > d.P1+300 {
				// single-burst variant: only cheap filler after the one burst (its symbols stay as rare as possible)
				for len(b) < n {
					q := len(b)
					fresh(4)
					for j := 0; j < 4 && len(b) < n && q+j < len(b); j++ {
						b = append(b, b[q+j])
					}
				}
				break
			}
			for h := 0; h < heavy && len(b) < n; h++ {
				cur := len(b)
				hi := len(starts)
				for hi > 0 && cur-starts[hi-1] < 4100 {
					hi--
				}
				lo := 0
				for lo < hi && cur-starts[lo] > 32700 {
					lo++
				}
				if hi == lo {
					break
				}
				src := starts[lo+r.Intn(hi-lo)]
				l := 131 + r.Intn(127)
				for i := 0; i < l && len(b) < n; i++ {
					b = append(b, b[src+i])
				}
				starts = append(starts, cur)
			}
			for i, f := 0, 1500+r.Intn(1500); i < f && len(b) < n; i++ {
				q := len(b)
				fresh(4)
				for j := 0; j < 4 && len(b) < n && q+j < len(b); j++ {
					b = append(b, b[q+j])
				}
			}
			fresh(200 + r.Intn(2500))
			if len(starts) > 6000 {
				starts = starts[len(starts)-6000:]
			}
		}
	case "units258": // (used by C02's phase sweep only, not drawn by GenData) P1 fresh bytes, then units of [one fresh byte + 258 zero bytes] (literal, maximal match at distance 259,
		// both with short codes: they share one multi-symbol table entry of the decoder), then P2 fresh bytes. Each unit
		// advances the output by 259, so sweeping P1 over 259 values puts such an entry at every output offset.
		for i := 0; i < d.P1 && len(b) < n; i++ {
			b = append(b, byte(1+r.Intn(255)))
		}
		for len(b)+d.P2 < n {
			b = append(b, byte(1+r.Intn(255)))
			for i := 0; i < 258 && len(b)+d.P2 < n; i++ {
				b = append(b, 0)
			}
		}
		for len(b) < n {
			b = append(b, byte(1+r.Intn(255)))
		}
	case "logcopies": // short literal runs and copies whose length and distance are log-uniform: every length/distance code and extra-bit width
		for len(b) < n {
			if len(b) > 4 && r.Intn(3) > 0 {
				maxd := len(b)
				if maxd > 32768 {
					maxd = 32768
				}
				dbits := 1 + r.Intn(15)
				if d.P1 == 1 && r.Intn(10) < 7 {
					dbits = 13 + r.Intn(3) // far-biased variant: distances of 4..32 KiB (12-13 extra bits)
				}
				dd := 1 + r.Intn(1<<uint(dbits))
				if dd > maxd {
					dd = 1 + r.Intn(maxd)
				}
				lbits := 2 + r.Intn(7)
				l := 3 + r.Intn(1<<uint(lbits))
				if l > 258 {
					l = 258
				}
				st := len(b) - dd
				for i := 0; i < l; i++ {
					b = append(b, b[st+i])
				}
			} else {
				b = append(b, r.Bytes(1+r.Intn(6))...)
			}
		}
	case "head_run": // incompressible head, then one long run of P1 bytes (sparse-file shape; P2 > 0: a repeat of period P2); head = Len-P1
		run := d.P1
		if run > n {
			run = n
		}
		b = append(b, r.Bytes(n-run)...)
		if d.P2 > 0 {
			// the long repeat has period P2 instead of being one byte value
			pat := r.Bytes(d.P2)
			for i := 0; len(b) < n; i++ {
				b = append(b, pat[i%len(pat)])
			}
		}
		for len(b) < n {
			b = append(b, 0)
		}
	case "allbytes":
		for len(b) < n {
			b = append(b, byte(len(b)*131+r.Intn(2)))
		}
	case "edge4k", "edge32k": // segment, then the same segment at distance exactly around the window edge
		w := 4096
		if d.Kind == "edge32k" {
			w = 32768
		}
		for len(b) < n {
			seg := r.Bytes(16 + r.Intn(600))
			b = append(b, seg...)
			gap := w - len(seg) + r.Intn(5) - 2
			if gap < 0 {
				gap = 0
			}
			b = append(b, r.Bytes(gap)...)
			b = append(b, seg...)
		}
	case "mixed":
		for len(b) < n {
			sub := DataSpec{Kind: DataKinds[r.Intn(len(DataKinds)-1)], Seed: r.Uint64(), Len: 1 + r.Intn(1+n/3), P1: 1 + r.Intn(64)}
			b = append(b, sub.Bytes()...)
		}
	default: // rand
		return r.Bytes(n)
	}
	return b[:n]
}

// GenData draws a data spec. maxLen bounds the size; sizes are biased to the
// thresholds of the implementation-independent format (window sizes, 64 KiB).
func GenData(r *kern.Rng, maxLen int) DataSpec {
	d := DataSpec{Seed: r.Uint64()}
	d.Kind = DataKinds[r.Intn(len(DataKinds))]
	switch d.Kind {
	case "alpha":
		d.P1 = r.Pick(1, 2, 3, 4, 8, 16, 64, 200)
	case "runs":
		d.P1 = r.Pick(2, 100, 258, 259, 300, 1000)
	case "periodic":
		d.P1 = r.Pick(1, 2, 3, 4, 5, 7, 8, 16, 31, 64, 255, 4096, 4097, 32768, 32769, 40000)
	case "copies":
		d.P1 = r.Pick(1, 2, 3, 100, 1000, 4095, 4096, 4097, 8192, 32767, 32768, 32769)
	case "fib":
		d.P1 = r.Pick(8, 16, 24, 30, 40)
		d.P2 = r.Pick(0, 0, 3, 4, 7)
	case "head_run":
		d.P1 = r.Pick(300, 5000, 20000, 70000)
		d.P2 = r.Pick(0, 0, 1, 7, 300)
	case "logcopies":
		d.P1 = r.Pick(0, 1, 1)
	case "headtail":
		d.P1, d.P2 = r.Pick(8, 11, 13, 14, 15, 17), r.Pick(0, 3, 15, 31, 32, 63, 100, 200)
	case "dyadic":
		d.P1, d.P2 = r.Pick(7, 10, 13, 15, 15, 16), r.Pick(0, 1, 2, 2)
	case "heavyburst":
		d.P1, d.P2 = r.Range(4200, 9000), r.Pick(17, 33, 64)
	case "geo":
		d.P1, d.P2 = r.Pick(3, 8, 17, 20, 24, 32, 64, 256), r.Pick(11, 13, 15, 16, 20, 30)
	}
	d.Len = GenLen(r, maxLen)
	if d.Kind == "headtail" && r.Pct(80) {
		// the exact histogram (no truncation, no padding)
		t := 0
		for _, c := range headTailCounts(d) {
			t += c
		}
		if t <= maxLen {
			d.Len = t
		}
	}
	if d.Kind == "dyadic" && r.Pct(80) {
		if t := 1<<uint(d.P1) - 1; t <= maxLen {
			d.Len = t
		}
	}
	if d.Kind == "heavyburst" {
		d.Len = r.Range(60000, 250000)
		if d.Len > maxLen {
			d.Len = maxLen
		}
	}
	if d.Kind == "head_run" && r.Pct(60) {
		// the head ends a little before a multiple of the token-block size
		d.Len = d.P1 + r.Pick(1, 2, 3)*32767 - r.Intn(400)
		if d.Len > maxLen {
			d.Len = GenLen(r, maxLen)
		}
	}
	return d
}

var lenAnchors = []int{0, 1, 2, 3, 4, 7, 8, 9, 15, 16, 17, 255, 256, 257, 258, 259, 260, 261, 4095, 4096, 4097, 8184, 8192, 8200, 8449, 8450, 8451, 8708,
	32767, 32768, 32769, 65535, 65536, 65537, 65793, 65794, 65795, 66052, 131072, 131073, 200000, 262144, 400000, 1 << 20}

func GenLen(r *kern.Rng, maxLen int) int {
	if maxLen <= 0 {
		return 0
	}
	var n int
	switch r.Weighted(3, 3, 2, 2) {
	case 0:
		n = lenAnchors[r.Intn(len(lenAnchors))] + r.Intn(3) - 1
	case 1:
		n = r.Intn(2000)
	case 2:
		n = r.Intn(maxLen + 1)
	default:
		n = r.Intn(100000)
	}
	if n < 0 {
		n = 0
	}
	if n > maxLen {
		n = r.Intn(maxLen + 1)
	}
	return n
}

// headTailCounts: the symbol counts of kind "headtail", rarest first.
func headTailCounts(d DataSpec) []int {
	h, t := d.P1, d.P2
	if h < 2 {
		h = 2
	}
	if h > 24 {
		h = 24
	}
	if t < 0 {
		t = 0
	}
	if t > 230 {
		t = 230
	}
	scale := []int{1, 2, 8, 32, 32, 100}[d.Seed%6]
	tc := 1 + int(d.Seed/6%3)
	var cnts []int
	for i := 0; i < t; i++ {
		cnts = append(cnts, tc)
	}
	a, c := 1, 2
	for i := 0; i < h; i++ {
		v := scale * a
		if v > 60000 {
			v = 60000
		}
		cnts = append(cnts, v)
		if d.Seed/18%2 == 0 {
			a, c = c, a+c
		} else {
			a *= 2
		}
	}
	return cnts
}

// dyadicLens draws 256 code lengths (0 = unused byte value) that, together
// with one end-of-block leaf at the maximal depth, fill a binary tree exactly.
func dyadicLens(d DataSpec, r *kern.Rng) []int {
	D := d.P1
	if D < 2 {
		D = 2
	}
	if D > 16 {
		D = 16
	}
	var ls []int
	if d.P2 >= 1 && D >= 12 {
		// designed variant: a few "frequent" code lengths with Fibonacci-like or geometric numbers of symbols, single
		// symbols at most other lengths; the Kraft sum is then completed with at most one more leaf per length. The
		// histogram of the code-length alphabet gets a steep head and a flat tail (deep code-length code, limit 7).
		nl := make([]int, D+1)
		units := func() int {
			k := 0
			for l := 1; l <= D; l++ {
				k += nl[l] << uint(D-l)
			}
			return k
		}
		nf := 4 + r.Intn(4)
		lv := 5 + r.Intn(3)
		a := r.Pick(2, 3, 4, 5, 7)
		c := a + 1 + r.Intn(a)
		order := r.Intn(3)
		var fl, fc []int
		for i := 0; i < nf && lv <= D-1; i++ {
			fl = append(fl, lv)
			fc = append(fc, a)
			if r.Intn(3) > 0 {
				a, c = c, a+c
			} else {
				a, c = c, 2*c
			}
			lv++
		}
		if order == 1 { // largest number of symbols at the shallowest of the frequent lengths
			for i, j := 0, len(fc)-1; i < j; i, j = i+1, j-1 {
				fc[i], fc[j] = fc[j], fc[i]
			}
		} else if order == 2 {
			for i := len(fc) - 1; i > 0; i-- {
				j := r.Intn(i + 1)
				fc[i], fc[j] = fc[j], fc[i]
			}
		}
		if d.P2 >= 2 {
			// chain shape: about a dozen lengths used by ONE symbol each (a flat tail of weight T in the code-length
			// histogram) and 5-6 frequent lengths whose numbers of symbols start near T/2 and grow at least like
			// Fibonacci numbers, so that every merge of the code-length code hangs the whole tail one level deeper
			fl, fc = fl[:0], fc[:0]
			x := r.Range(5, 9)
			y := x + r.Range(3, x)
			for sum := 0; len(fc) < 6 && sum+x <= 225; {
				fc = append(fc, x)
				sum += x
				x, y = y, x+y-r.Intn(3)
			}
			for try := 0; try < 30; try++ {
				for l := range nl {
					nl[l] = 0
				}
				start := 5 + r.Intn(3)
				pm := make([]int, len(fc))
				for i := range pm {
					pm[i] = i
				}
				for i := len(pm) - 1; i > 0; i-- {
					j := r.Intn(i + 1)
					pm[i], pm[j] = pm[j], pm[i]
				}
				for i, j := range pm {
					if start+i < D {
						nl[start+i] = fc[j]
					}
				}
				for l := 2; l < D; l++ {
					if nl[l] == 0 && r.Intn(10) > 0 {
						nl[l] = 1
					}
				}
				if units()+2 <= 1<<uint(D) {
					break
				}
			}
		} else {
			for i, l := range fl {
				nl[l] = fc[i]
			}
			for l := 2; l <= D; l++ {
				if nl[l] == 0 && r.Intn(4) > 0 {
					nl[l] = 1
				}
			}
		}
		nl[D] += 2 // one of them is end-of-block
		tot := func() int {
			t := 0
			for _, v := range nl {
				t += v
			}
			return t
		}
		for units() > 1<<uint(D) || tot() > 240 {
			// too much: thin out the heaviest contribution
			best := 1
			for l := 1; l <= D; l++ {
				if nl[l]<<uint(D-l) > nl[best]<<uint(D-best) {
					best = l
				}
			}
			if nl[best] <= 1 {
				nl[best] = 0
			} else {
				nl[best] -= (nl[best] + 3) / 4
			}
		}
		for l, rest := 1, 1<<uint(D)-units(); l <= D; l++ {
			if rest&(1<<uint(D-l)) != 0 {
				nl[l]++
			}
		}
		nl[D]-- // end-of-block
		// lay the lengths out so that equal ones are rarely neighbours (keeps repeat code 16 out of the header)
		prev := -1
		for {
			best := -1
			for l := 1; l <= D; l++ {
				if nl[l] > 0 && l != prev && (best < 0 || nl[l] > nl[best]) {
					best = l
				}
			}
			if best < 0 {
				if prev > 0 && nl[prev] > 0 {
					best = prev
				} else {
					break
				}
			}
			ls = append(ls, best)
			nl[best]--
			prev = best
		}
		if len(ls) > 250 {
			ls = ls[:250]
		}
		out := make([]int, 0, 256)
		for _, l := range ls {
			if len(out)+len(ls) < 245 && r.Intn(40) == 0 {
				for g := r.Pick(1, 1, 2, 3, 5, 11); g > 0; g-- {
					out = append(out, 0)
				}
			}
			out = append(out, l)
		}
		for len(out) < 256 {
			out = append(out, 0)
		}
		return out[:256]
	}
	for depth := 1; depth <= D; depth++ {
		// the side branch at this depth of the spine: a complete bush of height e
		e := 0
		if r.Intn(3) == 0 {
			e = 1 + r.Intn(6)
		}
		if depth+e > D {
			e = D - depth
		}
		if depth == D {
			e = 0 // the two deepest leaves: one byte value and end-of-block
		}
		for len(ls)+(1<<uint(e)) > 250 && e > 0 {
			e--
		}
		for i := 0; i < 1<<uint(e); i++ {
			ls = append(ls, depth+e)
		}
	}
	// spread over the byte values: either as drawn (runs of equal lengths), or shuffled, with a few gaps of unused values
	if d.Seed&1 != 0 {
		for i := len(ls) - 1; i > 0; i-- {
			j := r.Intn(i + 1)
			ls[i], ls[j] = ls[j], ls[i]
		}
	}
	out := make([]int, 0, 256)
	for _, l := range ls {
		if len(out)+len(ls) < 250 && r.Intn(12) == 0 {
			for g := r.Pick(1, 1, 2, 3, 5, 11); g > 0 && len(out) < 250; g-- {
				out = append(out, 0)
			}
		}
		out = append(out, l)
	}
	for len(out) < 256 {
		out = append(out, 0)
	}
	return out[:256]
}
