// Package scen defines the explicit, replayable scenario descriptions
// (traces) and executes them against fastgo (or the stdlib model) through the
// simulated seams of package kern.
package scen

import (
	"fgverif/kern"
)

// DataSpec describes payload bytes compactly; Bytes() is a pure function of
// it. Lit wins when present (used after minimisation).
type DataSpec struct {
	Kind string `json:"kind,omitempty"`
	Seed uint64 `json:"seed,omitempty"`
	Len  int    `json:"len"`
	P1   int    `json:"p1,omitempty"`
	P2   int    `json:"p2,omitempty"`
	Lit  []byte `json:"lit,omitempty"`
}

var DataKinds = []string{"rand", "alpha", "text", "runs", "periodic", "copies", "fib", "allbytes", "zeros", "edge4k", "edge32k", "logcopies", "head_run", "geo", "mixed"}

var words = []string{"the ", "of ", "and ", "compress", "ion ", "window ", "deflate ", "block ", "huffman ", "a ", "to ", "in ", "stream", "\n", "0123456789", "   ", "ing ", "tion", "er ", "Intel ", "fastgo "}

func (d DataSpec) Bytes() []byte {
	if d.Lit != nil {
		return d.Lit
	}
	n := d.Len
	if n <= 0 {
		return []byte{}
	}
	r := kern.NewRng(d.Seed ^ 0xda7a)
	b := make([]byte, 0, n)
	switch d.Kind {
	case "zeros":
		return make([]byte, n)
	case "alpha": // P1 symbols
		k := d.P1
		if k < 1 {
			k = 2
		}
		al := r.Bytes(k)
		for len(b) < n {
			b = append(b, al[r.Intn(k)])
		}
	case "text":
		for len(b) < n {
			b = append(b, words[r.Intn(len(words))]...)
		}
	case "runs": // runs of length around P1
		m := d.P1
		if m < 1 {
			m = 300
		}
		for len(b) < n {
			c := byte(r.Intn(256))
			l := 1 + r.Intn(2*m)
			for i := 0; i < l; i++ {
				b = append(b, c)
			}
		}
	case "periodic": // period P1
		p := d.P1
		if p < 1 {
			p = 7
		}
		pat := r.Bytes(p)
		for len(b) < n {
			b = append(b, pat...)
		}
	case "copies": // random with copies at distance around P1 (exact, ±1)
		dist := d.P1
		if dist < 1 {
			dist = 100
		}
		for len(b) < n {
			dd := dist + r.Intn(3) - 1
			if len(b) >= dd && dd > 0 && r.Intn(3) > 0 {
				l := 4 + r.Intn(300)
				s := len(b) - dd
				for i := 0; i < l; i++ {
					b = append(b, b[s+i])
				}
			} else {
				b = append(b, r.Bytes(1+r.Intn(40))...)
			}
		}
	case "fib": // symbol counts 1,2,3,5,8,... (shuffled): forces code lengths beyond 15 bits from 16 symbols on. (The series
		// 1,1,2,3,... does NOT with fastgo: with end-of-block it ties at every merge and fastgo's generator resolves
		// ties towards the bushy optimal tree, depth about k/2.)
		k := d.P1
		if k < 2 {
			k = 30
		}
		// largest k' <= k whose counts fit in n
		a, c, sum, kk := 1, 2, 0, 0
		for kk < k && sum+a <= n {
			sum += a
			a, c = c, a+c
			kk++
		}
		if kk < 2 {
			kk = 2
		}
		a, c = 1, 2
		for i := 0; i < kk && len(b) < n; i++ {
			for j := 0; j < a && len(b) < n; j++ {
				b = append(b, byte(i*7+3))
			}
			a, c = c, a+c
		}
		for len(b) < n {
			b = append(b, byte((kk-1)*7+3))
		}
		for i := len(b) - 1; i > 0; i-- {
			j := r.Intn(i + 1)
			b[i], b[j] = b[j], b[i]
		}
		if d.P2 > 0 {
			// variant: the data END in (about) P2 bytes of the rarest symbols, i.e. the
			// longest codes of the block are the last ones before end-of-block
			t, cum := 0, 0
			for fa, fc := 1, 2; t < kk-1 && cum < d.P2; t++ {
				cum += fa
				fa, fc = fc, fa+fc
			}
			head, tail := make([]byte, 0, len(b)), []byte{}
			for _, x := range b {
				if x >= 3 && (int(x)-3)%7 == 0 && (int(x)-3)/7 < t {
					tail = append(tail, x)
				} else {
					head = append(head, x)
				}
			}
			b = append(head, tail...)
		}
	case "geo": // P1 symbols whose counts grow geometrically (ratio P2/10) in tie groups of 1..3 equal counts, shuffled:
		// many shapes of skewed histograms for the code-length generator and its 15-bit limiter
		k, ratio := d.P1, float64(d.P2)/10
		if k < 2 {
			k = 2
		}
		if k > 256 {
			k = 256
		}
		if ratio < 1.05 {
			ratio = 1.5
		}
		g := 1 + int(d.Seed%3)
		perm := r.Bytes(256)
		syms := make([]byte, 256)
		for i := range syms {
			syms[i] = byte(i)
		}
		for i := 255; i > 0; i-- {
			j := int(perm[i]) % (i + 1)
			syms[i], syms[j] = syms[j], syms[i]
		}
		cnt, sum := 1.0, 0
		last := byte(0)
		for j := 0; j < k && sum < n; j++ {
			if j > 0 && j%g == 0 {
				cnt *= ratio
			}
			c := int(cnt)
			if c > n-sum {
				c = n - sum
			}
			for i := 0; i < c; i++ {
				b = append(b, syms[j])
			}
			sum += c
			last = syms[j]
		}
		for len(b) < n {
			b = append(b, last)
		}
		for i := len(b) - 1; i > 0; i-- {
			j := r.Intn(i + 1)
			b[i], b[j] = b[j], b[i]
		}
	case "logcopies": // short literal runs and copies whose length and distance are log-uniform: every length/distance code and extra-bit width
		for len(b) < n {
			if len(b) > 4 && r.Intn(3) > 0 {
				maxd := len(b)
				if maxd > 32768 {
					maxd = 32768
				}
				dbits := 1 + r.Intn(15)
				if d.P1 == 1 && r.Intn(10) < 7 {
					dbits = 13 + r.Intn(3) // far-biased variant: distances of 4..32 KiB (12-13 extra bits)
				}
				dd := 1 + r.Intn(1<<uint(dbits))
				if dd > maxd {
					dd = 1 + r.Intn(maxd)
				}
				lbits := 2 + r.Intn(7)
				l := 3 + r.Intn(1<<uint(lbits))
				if l > 258 {
					l = 258
				}
				st := len(b) - dd
				for i := 0; i < l; i++ {
					b = append(b, b[st+i])
				}
			} else {
				b = append(b, r.Bytes(1+r.Intn(6))...)
			}
		}
	case "head_run": // incompressible head, then one long run of P1 bytes (sparse-file shape); head = Len-P1
		run := d.P1
		if run > n {
			run = n
		}
		b = append(b, r.Bytes(n-run)...)
		for len(b) < n {
			b = append(b, 0)
		}
	case "allbytes":
		for len(b) < n {
			b = append(b, byte(len(b)*131+r.Intn(2)))
		}
	case "edge4k", "edge32k": // segment, then the same segment at distance exactly around the window edge
		w := 4096
		if d.Kind == "edge32k" {
			w = 32768
		}
		for len(b) < n {
			seg := r.Bytes(16 + r.Intn(600))
			b = append(b, seg...)
			gap := w - len(seg) + r.Intn(5) - 2
			if gap < 0 {
				gap = 0
			}
			b = append(b, r.Bytes(gap)...)
			b = append(b, seg...)
		}
	case "mixed":
		for len(b) < n {
			sub := DataSpec{Kind: DataKinds[r.Intn(len(DataKinds)-1)], Seed: r.Uint64(), Len: 1 + r.Intn(1+n/3), P1: 1 + r.Intn(64)}
			b = append(b, sub.Bytes()...)
		}
	default: // rand
		return r.Bytes(n)
	}
	return b[:n]
}

// GenData draws a data spec. maxLen bounds the size; sizes are biased to the
// thresholds of the implementation-independent format (window sizes, 64 KiB).
func GenData(r *kern.Rng, maxLen int) DataSpec {
	d := DataSpec{Seed: r.Uint64()}
	d.Kind = DataKinds[r.Intn(len(DataKinds))]
	switch d.Kind {
	case "alpha":
		d.P1 = r.Pick(1, 2, 3, 4, 8, 16, 64, 200)
	case "runs":
		d.P1 = r.Pick(2, 100, 258, 259, 300, 1000)
	case "periodic":
		d.P1 = r.Pick(1, 2, 3, 4, 5, 7, 8, 16, 31, 64, 255, 4096, 4097, 32768, 32769, 40000)
	case "copies":
		d.P1 = r.Pick(1, 2, 3, 100, 1000, 4095, 4096, 4097, 8192, 32767, 32768, 32769)
	case "fib":
		d.P1 = r.Pick(8, 16, 24, 30, 40)
		d.P2 = r.Pick(0, 0, 3, 4, 7)
	case "head_run":
		d.P1 = r.Pick(300, 5000, 20000, 70000)
	case "logcopies":
		d.P1 = r.Pick(0, 1, 1)
	case "geo":
		d.P1, d.P2 = r.Pick(3, 8, 17, 20, 24, 32, 64, 256), r.Pick(11, 13, 15, 16, 20, 30)
	}
	d.Len = GenLen(r, maxLen)
	if d.Kind == "head_run" && r.Pct(60) {
		// the head ends a little before a multiple of the token-block size
		d.Len = d.P1 + r.Pick(1, 2, 3)*32767 - r.Intn(400)
		if d.Len > maxLen {
			d.Len = GenLen(r, maxLen)
		}
	}
	return d
}

var lenAnchors = []int{0, 1, 2, 3, 4, 7, 8, 9, 15, 16, 17, 255, 256, 257, 258, 259, 260, 261, 4095, 4096, 4097, 8184, 8192, 8200, 8449, 8450, 8451, 8708,
	32767, 32768, 32769, 65535, 65536, 65537, 65793, 65794, 65795, 66052, 131072, 131073, 200000, 262144, 400000, 1 << 20}

func GenLen(r *kern.Rng, maxLen int) int {
	if maxLen <= 0 {
		return 0
	}
	var n int
	switch r.Weighted(3, 3, 2, 2) {
	case 0:
		n = lenAnchors[r.Intn(len(lenAnchors))] + r.Intn(3) - 1
	case 1:
		n = r.Intn(2000)
	case 2:
		n = r.Intn(maxLen + 1)
	default:
		n = r.Intn(100000)
	}
	if n < 0 {
		n = 0
	}
	if n > maxLen {
		n = r.Intn(maxLen + 1)
	}
	return n
}
