package scen

import (
	"bytes"
	sflate "compress/flate"
	sgzip "compress/gzip"
	szlib "compress/zlib"
	"errors"
	"fmt"
	"io"
	"runtime"
	"time"

	"fgverif/kern"

	fflate "github.com/intel/fastgo/compress/flate"
	fgzip "github.com/intel/fastgo/compress/gzip"
	fzlib "github.com/intel/fastgo/compress/zlib"
)

type GzHdr struct {
	Name     string `json:"name,omitempty"`
	Comment  string `json:"comment,omitempty"`
	Extra    []byte `json:"extra,omitempty"`
	HasExtra bool   `json:"has_extra,omitempty"` // Extra non-nil (possibly empty)
	MTime    int64  `json:"mtime,omitempty"`     // unix seconds; 0 = zero time.Time
	OS       int    `json:"os"`
	SetOS    bool   `json:"set_os,omitempty"`
}

type WOp struct {
	K string `json:"k"`           // "w" write, "f" flush, "c" close, "r" reset (new sink)
	N int    `json:"n,omitempty"` // bytes for a write
}

// WScen is one Writer history.
type WScen struct {
	Pkg   string    `json:"pkg"`  // flate | gzip | zlib
	Ctor  string    `json:"ctor"` // flate: new | 4k | dict ; gzip: new | level ; zlib: new | level | dict
	Level int       `json:"level"`
	Dict  *DataSpec `json:"dict,omitempty"`
	Hdr   *GzHdr    `json:"hdr,omitempty"`
	Data  DataSpec  `json:"data"`
	// DataOff is where in Data the first Write starts.
	DataOff int   `json:"data_off,omitempty"`
	Ops     []WOp `json:"ops"`
	// Fault applies to the FaultSeg-th sink (0 = the constructor's sink).
	Fault    *kern.SinkFault `json:"fault,omitempty"`
	FaultSeg int             `json:"fault_seg,omitempty"`
	Guard    bool            `json:"guard,omitempty"`
}

type WOpRes struct {
	K                       string
	N                       int    // bytes passed to Write
	Ret                     int    // n returned by Write
	Err                     error  // as returned
	Kind                    string // classification of Err
	Seg                     int
	CallsBefore, CallsAfter int  // sink calls of the current segment
	SinkLen                 int  // bytes in the current sink after the op
	ModelLen                int  // bytes accepted by Write in this segment so far
	FailedBefore            bool // the segment's sink had already failed before this op
	ClosedBefore            bool // a Close had returned nil in this segment before this op
	ErrBefore               bool // some op of this segment had returned an error before this op
}

type WSeg struct {
	Sink  *kern.SimSink
	Model []byte
}

type WRec struct {
	CtorErr   error
	Ops       []WOpRes
	Segs      []*WSeg
	Panic     string
	PanicOp   int
	CanaryErr string
	Guarded   bool
}

type wr interface {
	Write([]byte) (int, error)
	Flush() error
	Close() error
	Reset(io.Writer)
}

func ErrKind(err error) string {
	if err == nil {
		return "nil"
	}
	var ie *kern.InjectedError
	if errors.As(err, &ie) {
		return "injected"
	}
	if err == io.EOF {
		return "EOF"
	}
	if err == io.ErrUnexpectedEOF {
		return "UnexpectedEOF"
	}
	var ce sflate.CorruptInputError
	if errors.As(err, &ce) {
		return "Corrupt"
	}
	if err == sgzip.ErrChecksum || err == szlib.ErrChecksum || err == fgzip.ErrChecksum || err == fzlib.ErrChecksum {
		return "Checksum"
	}
	if err == sgzip.ErrHeader || err == szlib.ErrHeader || err == fgzip.ErrHeader || err == fzlib.ErrHeader {
		return "Header"
	}
	if err == szlib.ErrDictionary || err == fzlib.ErrDictionary {
		return "Dictionary"
	}
	if err == io.ErrShortWrite {
		return "ShortWrite"
	}
	return "other:" + err.Error()
}

func toTime(sec int64) time.Time {
	if sec == 0 {
		return time.Time{}
	}
	return time.Unix(sec, 0)
}

type guardable interface{ Check() error }

// Wr is the operation set shared by all six Writer implementations.
type Wr interface {
	Write([]byte) (int, error)
	Flush() error
	Close() error
	Reset(io.Writer)
}

// NewWriter builds the scenario's Writer on dst (exported for the pipe and
// multi-instance drivers).
func NewWriter(sc *WScen, dst io.Writer, fast bool) (Wr, error) {
	w, _, err := newWriter(sc, dst, fast)
	return w, err
}

// newWriter builds the Writer of the scenario on top of dst.
func newWriter(sc *WScen, dst io.Writer, fast bool) (w wr, g guardable, err error) {
	var dict []byte
	if sc.Dict != nil {
		dict = sc.Dict.Bytes()
	}
	switch sc.Pkg {
	case "flate":
		if fast {
			var fw *fflate.Writer
			switch sc.Ctor {
			case "4k":
				fw, err = fflate.NewWriterwWith4KWindow(dst, sc.Level)
			case "dict":
				fw, err = fflate.NewWriterDict(dst, sc.Level, dict)
			default:
				fw, err = fflate.NewWriter(dst, sc.Level)
			}
			if err != nil {
				return nil, nil, err
			}
			if sc.Guard {
				if vg := fw.VerifGuardBuffers(); vg != nil {
					g = vg
				}
			}
			return fw, g, nil
		}
		var sw *sflate.Writer
		if sc.Ctor == "dict" {
			sw, err = sflate.NewWriterDict(dst, sc.Level, dict)
		} else {
			sw, err = sflate.NewWriter(dst, sc.Level)
		}
		if err != nil {
			return nil, nil, err
		}
		return sw, nil, nil
	case "gzip":
		if fast {
			var zw *fgzip.Writer
			if sc.Ctor == "new" {
				zw = fgzip.NewWriter(dst)
			} else {
				zw, err = fgzip.NewWriterLevel(dst, sc.Level)
			}
			if err != nil {
				return nil, nil, err
			}
			if h := sc.Hdr; h != nil {
				zw.Name, zw.Comment = h.Name, h.Comment
				if h.HasExtra {
					zw.Extra = append([]byte{}, h.Extra...)
				}
				zw.ModTime = toTime(h.MTime)
				if h.SetOS {
					zw.OS = byte(h.OS)
				}
			}
			return zw, nil, nil
		}
		var zw *sgzip.Writer
		if sc.Ctor == "new" {
			zw = sgzip.NewWriter(dst)
		} else {
			zw, err = sgzip.NewWriterLevel(dst, sc.Level)
		}
		if err != nil {
			return nil, nil, err
		}
		if h := sc.Hdr; h != nil {
			zw.Name, zw.Comment = h.Name, h.Comment
			if h.HasExtra {
				zw.Extra = append([]byte{}, h.Extra...)
			}
			zw.ModTime = toTime(h.MTime)
			if h.SetOS {
				zw.OS = byte(h.OS)
			}
		}
		return zw, nil, nil
	case "zlib":
		if fast {
			var zw *fzlib.Writer
			switch sc.Ctor {
			case "new":
				zw = fzlib.NewWriter(dst)
			case "dict":
				zw, err = fzlib.NewWriterLevelDict(dst, sc.Level, dict)
			default:
				zw, err = fzlib.NewWriterLevel(dst, sc.Level)
			}
			if err != nil {
				return nil, nil, err
			}
			return zw, nil, nil
		}
		var zw *szlib.Writer
		switch sc.Ctor {
		case "new":
			zw = szlib.NewWriter(dst)
		case "dict":
			zw, err = szlib.NewWriterLevelDict(dst, sc.Level, dict)
		default:
			zw, err = szlib.NewWriterLevel(dst, sc.Level)
		}
		if err != nil {
			return nil, nil, err
		}
		return zw, nil, nil
	}
	return nil, nil, fmt.Errorf("unknown pkg %q", sc.Pkg)
}

// EffLevel is the compression level a scenario effectively uses.
func (sc *WScen) EffLevel() int {
	if (sc.Pkg == "gzip" || sc.Pkg == "zlib") && sc.Ctor == "new" {
		return -1
	}
	return sc.Level
}

// Accelerated reports whether fastgo's own compressor (not the delegated
// stdlib one) handles this scenario.
func (sc *WScen) Accelerated() bool {
	l := sc.EffLevel()
	if sc.Ctor == "dict" && sc.Dict != nil {
		return false
	}
	if sc.Pkg == "flate" && sc.Ctor == "4k" {
		return l != 0
	}
	return l == -2 || l == -1 || l == 1 || l == 2
}

// RunW executes the history on the calling task.
func RunW(t *kern.Task, log *kern.Log, sc *WScen, fast bool) (rec *WRec) {
	rec = &WRec{PanicOp: -1}
	data := sc.Data.Bytes()
	pos := sc.DataOff
	if pos > len(data) {
		pos = len(data)
	}
	newSeg := func() *WSeg {
		var f *kern.SinkFault
		if sc.Fault != nil && sc.FaultSeg == len(rec.Segs) {
			f = sc.Fault
		}
		name := "std"
		if fast {
			name = "fast"
		}
		seg := &WSeg{Sink: kern.NewSink(t, log, fmt.Sprintf("%s%d", name, len(rec.Segs)), f)}
		rec.Segs = append(rec.Segs, seg)
		return seg
	}
	seg := newSeg()
	var w wr
	var g guardable
	func() {
		defer func() {
			if r := recover(); r != nil {
				rec.Panic = fmt.Sprintf("constructor: %v", r)
			}
		}()
		w, g, rec.CtorErr = newWriter(sc, seg.Sink, fast)
	}()
	if rec.CtorErr != nil || rec.Panic != "" {
		return rec
	}
	rec.Guarded = g != nil
	closed, errSeen := false, false
	var callerBuf []byte
	for i, op := range sc.Ops {
		res := WOpRes{K: op.K, Seg: len(rec.Segs) - 1, CallsBefore: seg.Sink.Calls, FailedBefore: seg.Sink.Failed, ClosedBefore: closed, ErrBefore: errSeen}
		tid := 0
		if t != nil {
			tid = t.ID
		}
		func() {
			defer func() {
				if r := recover(); r != nil {
					if r == kern.ErrKilled {
						panic(r)
					}
					buf := make([]byte, 4096)
					rec.Panic = fmt.Sprintf("op %d (%s): %v\n%s", i, op.K, r, buf[:runtime.Stack(buf, false)])
					rec.PanicOp = i
				}
			}()
			switch op.K {
			case "w":
				n := op.N
				if pos+n > len(data) {
					n = len(data) - pos
				}
				chunk := data[pos : pos+n]
				pos += n
				res.N = n
				// the caller reuses its buffer: hand over a private copy and overwrite
				// it as soon as Write returns (io.Writer: "must not retain p")
				callerBuf = append(callerBuf[:0], chunk...)
				res.Ret, res.Err = w.Write(callerBuf)
				if !bytes.Equal(callerBuf, chunk) {
					panic("Write modified the caller's slice")
				}
				for i := range callerBuf {
					callerBuf[i] = 0xEE
				}
				if res.Ret > 0 && res.Ret <= n {
					seg.Model = append(seg.Model, chunk[:res.Ret]...)
				}
			case "f":
				res.Err = w.Flush()
			case "c":
				res.Err = w.Close()
				if res.Err == nil {
					closed = true
				}
			case "r":
				seg = newSeg()
				res.Seg = len(rec.Segs) - 1
				res.CallsBefore = 0
				closed, errSeen = false, false
				w.Reset(seg.Sink)
			}
		}()
		res.Kind = ErrKind(res.Err)
		if res.Err != nil {
			errSeen = true
		}
		res.CallsAfter = seg.Sink.Calls
		res.SinkLen = len(seg.Sink.Data)
		res.ModelLen = len(seg.Model)
		log.Ev(tid, kern.EvOp, res.N, int(op.K[0])|len(res.Kind)<<8, res.Kind)
		rec.Ops = append(rec.Ops, res)
		if rec.Panic != "" {
			break
		}
	}
	if g != nil {
		if err := g.Check(); err != nil {
			rec.CanaryErr = err.Error()
		}
	}
	return rec
}
