package scen

import (
	"bufio"
	"bytes"
	sflate "compress/flate"
	sgzip "compress/gzip"
	szlib "compress/zlib"
	"encoding/binary"
	"fmt"
	"hash/adler32"
	"hash/crc32"
	"io"
	"runtime"
	"strings"

	"fgverif/kern"
	"fgverif/ref"

	fflate "github.com/intel/fastgo/compress/flate"
	fgzip "github.com/intel/fastgo/compress/gzip"
	fzlib "github.com/intel/fastgo/compress/zlib"
)

// StreamSpec describes how one compressed stream (or container member) is made.
type StreamSpec struct {
	Enc       string           `json:"enc"` // "std" | "fast" (a Writer history W) | "synth" | "lit"
	W         *WScen           `json:"w,omitempty"`
	Synth     *ref.SynthParams `json:"synth,omitempty"`
	SynthSeed uint64           `json:"synth_seed,omitempty"`
	Wrap      string           `json:"wrap,omitempty"` // for synth/lit: "", "gzip", "zlib"
	// WrapFlags (gzip wrap): FLG bits to set in the hand-made member header
	// (1 FTEXT, 2 FHCRC, 4 FEXTRA, 8 FNAME, 16 FCOMMENT); field contents are
	// derived from SynthSeed. Encoders never produce FHCRC, Readers must parse it.
	WrapFlags int    `json:"wrap_flags,omitempty"`
	Lit       []byte `json:"lit,omitempty"`
}

type Mutation struct {
	K   string `json:"k"` // flip (bit Pos), set (byte Pos = Val), trunc (cut at Pos), ins (insert Val at Pos), del
	Pos int    `json:"pos"`
	Val int    `json:"val,omitempty"`
}

type InputSpec struct {
	Parts  []StreamSpec `json:"parts"`
	Mut    []Mutation   `json:"mut,omitempty"`
	Suffix *DataSpec    `json:"suffix,omitempty"`
}

type Built struct {
	Bytes     []byte
	PartEnds  []int    // offset after each part (before mutation)
	Payloads  [][]byte // model payload of each part where known (encoder parts; synth ground truth)
	FastMade  bool     // some part was produced by fastgo's own Writer (bytes depend on the acceleration level)
	StreamLen int      // length before the suffix (after mutation it is only indicative)
	BuildErr  string
}

type synthRng struct{ r *kern.Rng }

func (s synthRng) Intn(n int) int { return s.r.Intn(n) }

func (sp *StreamSpec) build() (b []byte, payload []byte, fastMade bool, err string) {
	switch sp.Enc {
	case "std", "fast":
		log := kern.NewLog(false)
		sim := kern.NewSim(log, kern.SchedSpec{})
		var rec *WRec
		sim.Solo("enc", func(t *kern.Task) { rec = RunW(t, log, sp.W, sp.Enc == "fast") })
		if rec.CtorErr != nil || rec.Panic != "" {
			return nil, nil, sp.Enc == "fast", fmt.Sprintf("encoder failed: %v %s", rec.CtorErr, rec.Panic)
		}
		for _, o := range rec.Ops {
			if o.Err != nil {
				return nil, nil, sp.Enc == "fast", fmt.Sprintf("encoder op %s failed: %v", o.K, o.Err)
			}
		}
		last := rec.Segs[len(rec.Segs)-1]
		return last.Sink.Data, last.Model, sp.Enc == "fast", ""
	case "synth":
		s := ref.Synthesize(synthRng{kern.NewRng(sp.SynthSeed)}, *sp.Synth)
		if sp.Wrap == "gzip" && sp.WrapFlags != 0 {
			return wrapGzipFlags(s.Stream, sp.WrapFlags, sp.SynthSeed), s.Out, false, ""
		}
		return wrap(sp.Wrap, s.Stream, sp.Synth.Dict), s.Out, false, ""
	default:
		return wrap(sp.Wrap, sp.Lit, nil), nil, false, ""
	}
}

// wrap frames a raw deflate stream as a gzip member or zlib stream with the
// checksums of what the reference inflater decodes from it.
func wrap(kind string, raw []byte, dict []byte) []byte {
	switch kind {
	case "gzip":
		r := ref.Inflate(raw, ref.Options{MaxOut: 64 << 20})
		out := []byte{0x1f, 0x8b, 8, 0, 0, 0, 0, 0, 0, 255}
		out = append(out, raw...)
		var tr [8]byte
		binary.LittleEndian.PutUint32(tr[:], crc32.ChecksumIEEE(r.Out))
		binary.LittleEndian.PutUint32(tr[4:], uint32(len(r.Out)))
		return append(out, tr[:]...)
	case "zlib":
		r := ref.Inflate(raw, ref.Options{MaxOut: 64 << 20, Dict: dict})
		out := []byte{0x78, 0x9c}
		if dict != nil {
			out = []byte{0x78, 0xbb}
			var id [4]byte
			binary.BigEndian.PutUint32(id[:], adler32.Checksum(dict))
			out = append(out, id[:]...)
		}
		out = append(out, raw...)
		var tr [4]byte
		binary.BigEndian.PutUint32(tr[:], adler32.Checksum(r.Out))
		return append(out, tr[:]...)
	}
	return raw
}

// wrapGzipFlags frames raw as a gzip member whose header carries the optional
// fields selected by flags, including a correct header CRC when FHCRC is set.
func wrapGzipFlags(raw []byte, flags int, seed uint64) []byte {
	r := kern.NewRng(seed ^ 0x9219)
	flags &= 31
	h := []byte{0x1f, 0x8b, 8, byte(flags), byte(r.Intn(256)), byte(r.Intn(256)), byte(r.Intn(256)), byte(r.Intn(256)), byte(r.Pick(0, 2, 4)), byte(r.Intn(256))}
	if flags&4 != 0 {
		ex := r.Bytes(r.Pick(0, 1, 10, 300))
		h = append(h, byte(len(ex)), byte(len(ex)>>8))
		h = append(h, ex...)
	}
	str := func() {
		n := r.Pick(0, 1, 8, 100, 511)
		for i := 0; i < n; i++ {
			h = append(h, byte(1+r.Intn(255)))
		}
		h = append(h, 0)
	}
	if flags&8 != 0 {
		str()
	}
	if flags&16 != 0 {
		str()
	}
	if flags&2 != 0 {
		c := crc32.ChecksumIEEE(h)
		h = append(h, byte(c), byte(c>>8))
	}
	dec := ref.Inflate(raw, ref.Options{MaxOut: 64 << 20})
	out := append(h, raw...)
	var tr [8]byte
	binary.LittleEndian.PutUint32(tr[:], crc32.ChecksumIEEE(dec.Out))
	binary.LittleEndian.PutUint32(tr[4:], uint32(len(dec.Out)))
	return append(out, tr[:]...)
}

func (in *InputSpec) Build() *Built {
	bt := &Built{}
	for i := range in.Parts {
		b, pl, fm, e := in.Parts[i].build()
		if e != "" {
			bt.BuildErr = e
			return bt
		}
		bt.Bytes = append(bt.Bytes, b...)
		bt.PartEnds = append(bt.PartEnds, len(bt.Bytes))
		bt.Payloads = append(bt.Payloads, pl)
		bt.FastMade = bt.FastMade || fm
	}
	bt.Bytes = append([]byte{}, bt.Bytes...)
	for _, m := range in.Mut {
		n := len(bt.Bytes)
		switch m.K {
		case "flip":
			if n > 0 {
				p := m.Pos % (n * 8)
				bt.Bytes[p/8] ^= 1 << uint(p%8)
			}
		case "set":
			if n > 0 {
				bt.Bytes[m.Pos%n] = byte(m.Val)
			}
		case "trunc":
			if m.Pos < n {
				bt.Bytes = bt.Bytes[:m.Pos]
			}
		case "ins":
			p := m.Pos % (n + 1)
			bt.Bytes = append(bt.Bytes[:p], append([]byte{byte(m.Val)}, bt.Bytes[p:]...)...)
		case "del":
			if n > 0 {
				p := m.Pos % n
				bt.Bytes = append(bt.Bytes[:p], bt.Bytes[p+1:]...)
			}
		}
	}
	bt.StreamLen = len(bt.Bytes)
	if in.Suffix != nil {
		bt.Bytes = append(bt.Bytes, in.Suffix.Bytes()...)
	}
	return bt
}

type SrcSpec struct {
	Kind string `json:"kind"` // plain | bufio | bytes.Reader | bytes.Buffer | strings.Reader | bytereader
	Buf  int    `json:"buf,omitempty"`
}

type Prior struct {
	In    InputSpec `json:"in"`
	Take  int       `json:"take"` // bytes to read before abandoning the stream; -1 = until EOF or error
	Reads []int     `json:"reads,omitempty"`
	Dict  *DataSpec `json:"dict,omitempty"`
	Close bool      `json:"close,omitempty"` // call Close on the Reader after this use (before the next Reset)
	// FailAfter > 0: the source of this earlier stream fails (injected error)
	// after that many bytes, so the Reader is left in a source-error state.
	FailAfter int `json:"fail_after,omitempty"`
	// NoMulti (gzip): Multistream(false) was switched on for this earlier use.
	NoMulti bool `json:"no_multi,omitempty"`
}

// RScen is one Reader history: optional earlier uses, then the stream under test.
type RScen struct {
	Pkg      string        `json:"pkg"`
	In       InputSpec     `json:"in"`
	Src      SrcSpec       `json:"src"`
	Ctor     string        `json:"ctor,omitempty"` // "new" (default) | "reset": constructed on an empty source, then Reset
	Del      kern.Delivery `json:"del"`
	Reads    []int         `json:"reads,omitempty"` // Read buffer sizes, cycled; empty = 64 KiB
	Prior    []Prior       `json:"prior,omitempty"`
	Dict     *DataSpec     `json:"dict,omitempty"`
	NoMulti  bool          `json:"no_multi,omitempty"` // gzip: Multistream(false) and Reset per member
	Members  int           `json:"members,omitempty"`  // NoMulti: stop after this many members (0 = until Reset fails)
	MaxOut   int           `json:"max_out,omitempty"`
	Extra    int           `json:"extra,omitempty"`     // further Reads after the first error (default 3)
	CloseEnd bool          `json:"close_end,omitempty"` // call Close after the stickiness reads
	// Then: after the stream under test has ended, the same Reader is Reset onto
	// this further input (delivered through a plain, non-bufio source) and
	// drained; only afterwards is the first source inspected. A Reader must not
	// touch a source it has been reset away from.
	Then *InputSpec `json:"then,omitempty"`
	// ExtraBetween (NoMulti): further Reads after each member's io.EOF, before
	// the next Reset; each must return (0, io.EOF) and consume nothing.
	ExtraBetween int `json:"extra_between,omitempty"`
}

type MemberRec struct {
	Out  []byte
	Hdr  GzHdr
	Err  error
	Kind string
}

type RRec struct {
	Built             *Built
	CtorErr           error
	Out               []byte
	Err               error
	Kind              string
	After             []string // kinds returned by reads after the first error
	AfterN            []int
	AfterSame         bool // same error value each time
	Reads             int
	MaxZeroRun        int
	Livelock          bool
	TooBig            bool
	SrcRest           []byte
	SrcRestKnown      bool
	SrcCalls          int
	Panic             string
	Members           []MemberRec // NoMulti mode
	Hdr               *GzHdr      // first header (gzip)
	ResetErr          error       // NoMulti: error of the last Reset
	Src               *kern.SimSource
	ReadAfterEndCalls int
	BetweenBad        string
	ThenDone          bool
	ThenOut           int
}

type byteReaderSrc struct {
	s   *kern.SimSource
	one [1]byte
}

func (b *byteReaderSrc) Read(p []byte) (int, error) { return b.s.Read(p) }
func (b *byteReaderSrc) ReadByte() (byte, error) {
	for {
		n, err := b.s.Read(b.one[:])
		if n == 1 {
			return b.one[0], nil
		}
		if err != nil {
			return 0, err
		}
	}
}

type plainSrc struct{ s *kern.SimSource }

func (p plainSrc) Read(b []byte) (int, error) { return p.s.Read(b) }

// makeSource wraps data per the source kind; rest() returns what the caller's
// source object still holds.
func makeSource(t *kern.Task, log *kern.Log, name string, data []byte, del kern.Delivery, sp SrcSpec) (r io.Reader, sim *kern.SimSource, rest func() ([]byte, bool)) {
	switch sp.Kind {
	case "bytes.Reader":
		br := bytes.NewReader(data)
		return br, nil, func() ([]byte, bool) { b, _ := io.ReadAll(br); return b, true }
	case "bytes.Buffer":
		bb := bytes.NewBuffer(append([]byte{}, data...))
		return bb, nil, func() ([]byte, bool) { return bb.Bytes(), true }
	case "strings.Reader":
		sr := strings.NewReader(string(data))
		return sr, nil, func() ([]byte, bool) { b, _ := io.ReadAll(sr); return b, true }
	}
	src := kern.NewSource(t, log, name, data, del)
	switch sp.Kind {
	case "bufio":
		sz := sp.Buf
		if sz == 0 {
			sz = 4096
		}
		br := bufio.NewReaderSize(plainSrc{src}, sz)
		return br, src, func() ([]byte, bool) {
			if del.HasFail {
				return nil, false
			}
			b, _ := io.ReadAll(br)
			return b, true
		}
	case "bytereader":
		return &byteReaderSrc{s: src}, src, func() ([]byte, bool) { return data[src.Pos:], true }
	}
	return plainSrc{src}, src, func() ([]byte, bool) { return data[src.Pos:], false }
}

type resetter interface {
	Reset(r io.Reader, dict []byte) error
}

func fromStdHdr(h sgzip.Header) GzHdr {
	g := GzHdr{Name: h.Name, Comment: h.Comment, OS: int(h.OS), SetOS: true}
	if h.Extra != nil {
		g.HasExtra = true
		g.Extra = h.Extra
	}
	if !h.ModTime.IsZero() {
		g.MTime = h.ModTime.Unix()
	}
	return g
}

func fromFastHdr(h fgzip.Header) GzHdr {
	g := GzHdr{Name: h.Name, Comment: h.Comment, OS: int(h.OS), SetOS: true}
	if h.Extra != nil {
		g.HasExtra = true
		g.Extra = h.Extra
	}
	if !h.ModTime.IsZero() {
		g.MTime = h.ModTime.Unix()
	}
	return g
}

// reader abstracts over the six Reader implementations.
type reader struct {
	cl    io.Closer
	rd    io.Reader
	reset func(r io.Reader, dict []byte) error
	hdr   func() GzHdr
	multi func(bool)
}

// OpenReader builds a Reader of the package on src (exported for the pipe driver).
func OpenReader(pkg string, fast bool, src io.Reader, dict []byte) (io.Reader, func(bool), error) {
	r, err := openReader(pkg, fast, src, dict)
	if err != nil {
		return nil, nil, err
	}
	return r.rd, r.multi, nil
}

func openReader(pkg string, fast bool, src io.Reader, dict []byte) (*reader, error) {
	switch pkg {
	case "flate":
		var rc io.ReadCloser
		if fast {
			if dict != nil {
				rc = fflate.NewReaderDict(src, dict)
			} else {
				rc = fflate.NewReader(src)
			}
		} else {
			if dict != nil {
				rc = sflate.NewReaderDict(src, dict)
			} else {
				rc = sflate.NewReader(src)
			}
		}
		rs := rc.(resetter)
		return &reader{rd: rc, cl: rc, reset: rs.Reset}, nil
	case "gzip":
		if fast {
			z, err := fgzip.NewReader(src)
			if err != nil {
				return nil, err
			}
			return &reader{rd: z, cl: z, reset: func(r io.Reader, _ []byte) error { return z.Reset(r) }, hdr: func() GzHdr { return fromFastHdr(z.Header) }, multi: z.Multistream}, nil
		}
		z, err := sgzip.NewReader(src)
		if err != nil {
			return nil, err
		}
		return &reader{rd: z, cl: z, reset: func(r io.Reader, _ []byte) error { return z.Reset(r) }, hdr: func() GzHdr { return fromStdHdr(z.Header) }, multi: z.Multistream}, nil
	case "zlib":
		var rc io.ReadCloser
		var err error
		if fast {
			if dict != nil {
				rc, err = fzlib.NewReaderDict(src, dict)
			} else {
				rc, err = fzlib.NewReader(src)
			}
		} else {
			if dict != nil {
				rc, err = szlib.NewReaderDict(src, dict)
			} else {
				rc, err = szlib.NewReader(src)
			}
		}
		if err != nil {
			return nil, err
		}
		rs := rc.(resetter)
		return &reader{rd: rc, cl: rc, reset: rs.Reset}, nil
	}
	return nil, fmt.Errorf("unknown pkg %q", pkg)
}

// a tiny valid stream per package, used to construct a Reader before Reset.
func tinyStream(pkg string) []byte {
	switch pkg {
	case "gzip":
		return wrap("gzip", []byte{3, 0}, nil)
	case "zlib":
		return wrap("zlib", []byte{3, 0}, nil)
	}
	return []byte{3, 0}
}

const defaultMaxOut = 96 << 20

// drain reads until the first error, maxOut, or take bytes (take<0: no limit).
func drain(rd io.Reader, sizes []int, take int, maxOut int, rec *RRec) (out []byte, err error) {
	si := 0
	zero := 0
	var scratch []byte
	for {
		sz := 65536
		if len(sizes) > 0 {
			sz = sizes[si%len(sizes)]
			si++
			if sz < 1 {
				sz = 1
			}
		}
		if take >= 0 && len(out)+sz > take {
			sz = take - len(out)
			if sz <= 0 {
				return out, nil
			}
		}
		if cap(scratch) < sz+8 {
			scratch = make([]byte, sz+8)
		}
		buf := scratch[:sz+8]
		for i := sz; i < sz+8; i++ {
			buf[i] = 0xEE
		}
		n, e := rd.Read(buf[:sz])
		rec.Reads++
		if n < 0 || n > sz {
			panic(fmt.Sprintf("Read returned n=%d for a buffer of %d", n, sz))
		}
		for i := sz; i < sz+8; i++ {
			if buf[i] != 0xEE {
				panic("Read wrote past the caller's buffer")
			}
		}
		out = append(out, buf[:n]...)
		if e != nil {
			return out, e
		}
		if n == 0 {
			zero++
			if zero > rec.MaxZeroRun {
				rec.MaxZeroRun = zero
			}
			if zero > 64 {
				rec.Livelock = true
				return out, nil
			}
		} else {
			zero = 0
		}
		if len(out) > maxOut {
			rec.TooBig = true
			return out, nil
		}
	}
}

// RunR executes the Reader history on the calling task.
func RunR(t *kern.Task, log *kern.Log, sc *RScen, fast bool) (rec *RRec) {
	rec = &RRec{}
	maxOut := sc.MaxOut
	if maxOut == 0 {
		maxOut = defaultMaxOut
	}
	defer func() {
		if r := recover(); r != nil {
			if r == kern.ErrKilled {
				panic(r)
			}
			buf := make([]byte, 6144)
			rec.Panic = fmt.Sprintf("%v\n%s", r, buf[:runtime.Stack(buf, false)])
		}
	}()
	bt := sc.In.Build()
	rec.Built = bt
	if bt.BuildErr != "" {
		return rec
	}
	var dict []byte
	if sc.Dict != nil {
		dict = sc.Dict.Bytes()
	}
	var rd *reader
	var err error
	useReset := sc.Ctor == "reset" || len(sc.Prior) > 0
	// earlier uses of the same Reader
	for pi, pr := range sc.Prior {
		pb := pr.In.Build()
		if pb.BuildErr != "" {
			bt.BuildErr = "prior: " + pb.BuildErr
			return rec
		}
		var pd []byte
		if pr.Dict != nil {
			pd = pr.Dict.Bytes()
		}
		pdel := kern.Delivery{}
		if pr.FailAfter > 0 {
			pdel = kern.Delivery{HasFail: true, FailAfter: pr.FailAfter % (len(pb.Bytes) + 1)}
		}
		psrc, _, _ := makeSource(t, log, fmt.Sprintf("prior%d", pi), pb.Bytes, pdel, SrcSpec{Kind: "plain"})
		if rd == nil {
			rd, err = openReader(sc.Pkg, fast, psrc, pd)
			if err != nil {
				// header of the prior stream was bad; start over with a tiny stream
				rd, err = openReader(sc.Pkg, fast, bytes.NewReader(tinyStream(sc.Pkg)), nil)
				if err != nil {
					rec.CtorErr = err
					return rec
				}
				continue
			}
		} else if e := rd.reset(psrc, pd); e != nil {
			continue
		}
		if pr.NoMulti && rd.multi != nil {
			rd.multi(false)
		}
		var dummy RRec
		drain(rd.rd, pr.Reads, pr.Take, maxOut, &dummy)
		if pr.Close {
			rd.cl.Close()
		}
	}
	if useReset && rd == nil {
		rd, err = openReader(sc.Pkg, fast, bytes.NewReader(tinyStream(sc.Pkg)), nil)
		if err != nil {
			rec.CtorErr = err
			return rec
		}
		if sc.Ctor == "reset" && len(sc.Prior) == 0 {
			// leave it unread: a fresh Reader that is Reset before use
		}
	}
	src, simsrc, rest := makeSource(t, log, "src", bt.Bytes, sc.Del, sc.Src)
	rec.Src = simsrc
	if rd == nil {
		rd, err = openReader(sc.Pkg, fast, src, dict)
	} else {
		err = rd.reset(src, dict)
	}
	tid := 0
	if t != nil {
		tid = t.ID
	}
	if err != nil {
		rec.CtorErr = err
		rec.Err, rec.Kind = err, ErrKind(err)
		rec.AfterSame = true // no Reader exists to read from again
		if simsrc != nil {
			rec.SrcCalls = simsrc.Calls
		}
		log.Ev(tid, kern.EvOp, 0, len(rec.Kind), "ctor "+rec.Kind)
		rec.SrcRest, rec.SrcRestKnown = rest()
		return rec
	}
	if sc.Pkg == "gzip" {
		h := rd.hdr()
		rec.Hdr = &h
	}
	if sc.Pkg == "gzip" && sc.NoMulti {
		for {
			rd.multi(false)
			var m MemberRec
			m.Hdr = rd.hdr()
			m.Out, m.Err = drain(rd.rd, sc.Reads, -1, maxOut, rec)
			m.Kind = ErrKind(m.Err)
			rec.Members = append(rec.Members, m)
			rec.Out = append(rec.Out, m.Out...)
			log.Ev(tid, kern.EvOp, len(m.Out), len(m.Kind), "member "+m.Kind)
			if m.Err == io.EOF {
				for i := 0; i < sc.ExtraBetween; i++ {
					var b [16]byte
					n, e := rd.rd.Read(b[:])
					if n != 0 || e != io.EOF {
						rec.BetweenBad = fmt.Sprintf("Read #%d after member %d's io.EOF returned (%d, %v)", i+1, len(rec.Members)-1, n, e)
					}
				}
			}
			if m.Err != io.EOF || rec.TooBig || rec.Livelock || len(rec.Members) > 64 || (sc.Members > 0 && len(rec.Members) >= sc.Members) {
				rec.Err, rec.Kind = m.Err, m.Kind
				break
			}
			if e := rd.reset(src, nil); e != nil {
				rec.ResetErr = e
				rec.Err, rec.Kind = e, ErrKind(e)
				break
			}
		}
	} else {
		rec.Out, rec.Err = drain(rd.rd, sc.Reads, -1, maxOut, rec)
		rec.Kind = ErrKind(rec.Err)
	}
	log.Ev(tid, kern.EvOp, len(rec.Out), int(kern.HashBytes(rec.Out)&0x3fffffff), "read "+rec.Kind)
	// stickiness: further reads
	if rec.Err != nil && rec.ResetErr == nil {
		extra := sc.Extra
		if extra == 0 {
			extra = 3
		}
		rec.AfterSame = true
		before := 0
		if simsrc != nil {
			before = simsrc.Calls
		}
		for i := 0; i < extra; i++ {
			buf := make([]byte, 64)
			n, e := rd.rd.Read(buf)
			rec.After = append(rec.After, ErrKind(e))
			rec.AfterN = append(rec.AfterN, n)
			if e != rec.Err {
				rec.AfterSame = false
			}
		}
		if simsrc != nil {
			rec.ReadAfterEndCalls = simsrc.Calls - before
		}
	}
	if simsrc != nil {
		rec.SrcCalls = simsrc.Calls
	}
	if sc.CloseEnd {
		rd.cl.Close()
	}
	if sc.Then != nil {
		if tb := sc.Then.Build(); tb.BuildErr == "" {
			tsrc, _, _ := makeSource(t, log, "then", tb.Bytes, kern.Delivery{}, SrcSpec{Kind: "plain"})
			if e := rd.reset(tsrc, nil); e == nil {
				var dummy RRec
				out, _ := drain(rd.rd, nil, -1, maxOut, &dummy)
				rec.ThenOut = len(out)
			}
			rec.ThenDone = true
		}
	}
	rec.SrcRest, rec.SrcRestKnown = rest()
	return rec
}
