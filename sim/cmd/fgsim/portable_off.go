//go:build !noasmtest

package main

const portableBuild = false
