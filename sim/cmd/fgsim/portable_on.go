//go:build noasmtest

package main

// portableBuild: this binary was built with -tags noasmtest, i.e. it contains
// fastgo's portable (non-amd64) code paths instead of the amd64 ones.
const portableBuild = true
