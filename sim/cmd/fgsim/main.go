// fgsim: deterministic simulation driver for the fastgo properties.
//
//	fgsim check <id> <quick|thorough>   parent: workers per level, evidence, verdict
//	fgsim worker <id> <tier> <seed> <shard> <nshards> <start>
//	fgsim replay <trace.json>
//	fgsim minimize <in.json> <out.json>
//	fgsim probe
//	fgsim selfcheck determinism
//	fgsim gen <id> <tier> <seed> <idx>   print the trace of one run index
package main

import (
	"bufio"
	"bytes"
	"encoding/json"
	"fmt"
	"io"
	"os"
	"os/exec"
	"path/filepath"
	"runtime"
	"runtime/pprof"
	"sort"
	"strconv"
	"strings"
	"sync"
	"sync/atomic"
	"syscall"
	"time"

	"fgverif/kern"
	"fgverif/props"

	fflate "github.com/intel/fastgo/compress/flate"
)

// levelPortable is the pseudo acceleration level of the second binary built with
// -tags noasmtest: fastgo's portable files (*_other.go) at level 0, which an amd64
// build never compiles.
const levelPortable = 10

const (
	exitOK        = 0
	exitViolation = 1
	exitInfra     = 2
)

func archLevel() int     { l, _ := fflate.VerifArchLevel(); return l }
func detectedLevel() int { _, d := fflate.VerifArchLevel(); return d }

func verifDir() string {
	if d := os.Getenv("VERIF_DIR"); d != "" {
		return d
	}
	exe, err := os.Executable()
	if err == nil {
		return filepath.Dir(filepath.Dir(exe))
	}
	return "/verif"
}

func seedFromEnv() uint64 {
	if s := os.Getenv("VERIF_SEED"); s != "" {
		if v, err := strconv.ParseUint(s, 10, 64); err == nil {
			return v
		}
		if v, err := strconv.ParseInt(s, 10, 64); err == nil {
			return uint64(v)
		}
	}
	return 1
}

func main() {
	if len(os.Args) < 2 {
		fmt.Fprintln(os.Stderr, "usage: fgsim check|worker|replay|minimize|probe|selfcheck|gen ...")
		os.Exit(exitInfra)
	}
	props.ExplainMode = os.Getenv("FGSIM_EXPLAIN") != ""
	switch os.Args[1] {
	case "check":
		os.Exit(cmdCheck(os.Args[2], os.Args[3]))
	case "worker":
		cmdWorker(os.Args[2:])
	case "replay":
		os.Exit(cmdReplay(os.Args[2]))
	case "minimize":
		os.Exit(cmdMinimize(os.Args[2], os.Args[3]))
	case "probe":
		cmdProbe()
	case "selfcheck":
		os.Exit(cmdSelfcheck(os.Args[2:]))
	case "gen":
		p := props.Registry[os.Args[2]]
		seed, _ := strconv.ParseUint(os.Args[4], 10, 64)
		idx, _ := strconv.Atoi(os.Args[5])
		tr := genTrace(p, os.Args[3], seed, idx)
		b, _ := json.MarshalIndent(tr, "", " ")
		fmt.Println(string(b))
	case "digest":
		tr, err := loadTrace(os.Args[2])
		if err != nil {
			fmt.Fprintln(os.Stderr, err)
			os.Exit(exitInfra)
		}
		o := safeExec(props.Registry[tr.Property], tr, false)
		fmt.Printf("digest=%x violations=%d\n", o.Digest, len(o.Violations))
		if props.ExplainMode {
			b, _ := json.Marshal(o.Subs)
			fmt.Printf("SUBS %s\n", b)
		}
	case "racepass":
		os.Exit(cmdRacePass(os.Args[2:]))
	case "list":
		fmt.Println(strings.Join(props.IDs(), " "))
	default:
		fmt.Fprintln(os.Stderr, "unknown command", os.Args[1])
		os.Exit(exitInfra)
	}
}

func genTrace(p props.Property, tier string, seed uint64, idx int) *props.Trace {
	rs := kern.Mix(seed, p.ID(), uint64(idx))
	tr := p.Gen(kern.NewRng(rs), tier, idx)
	tr.Seed, tr.Index = seed, idx
	tr.Level = archLevel()
	return tr
}

// ---------------------------------------------------------------- probe

func cmdProbe() {
	// a small round trip at the forced level; prints the level in force
	tr := genTrace(props.Registry["C01"], "quick", 12345, 3)
	out := safeExec(props.Registry["C01"], tr, false)
	fmt.Printf("PROBE level=%d detected=%d evals=%d violations=%d\n", archLevel(), detectedLevel(), out.Evals, len(out.Violations))
}

func runnableLevels(self string) (levels []int, detected int, notes []string) {
	for _, l := range []int{0, 1, 3, 4} {
		cmd := exec.Command(self, "probe")
		cmd.Env = append(os.Environ(), fmt.Sprintf("FASTGO_VERIF_ARCHLEVEL=%d", l))
		var buf bytes.Buffer
		cmd.Stdout = &buf
		cmd.Stderr = &buf
		err := runWithTimeout(cmd, 60*time.Second)
		s := buf.String()
		if err == nil && strings.Contains(s, fmt.Sprintf("PROBE level=%d ", l)) {
			levels = append(levels, l)
			if i := strings.Index(s, "detected="); i >= 0 {
				fmt.Sscanf(s[i:], "detected=%d", &detected)
			}
		} else {
			first := s
			if len(first) > 200 {
				first = first[:200]
			}
			notes = append(notes, fmt.Sprintf("level %d not runnable on this host: %v %s", l, err, strings.TrimSpace(first)))
		}
	}
	return
}

func runWithTimeout(cmd *exec.Cmd, d time.Duration) error {
	cmd.SysProcAttr = &syscall.SysProcAttr{Setpgid: true}
	if err := cmd.Start(); err != nil {
		return err
	}
	done := make(chan error, 1)
	go func() { done <- cmd.Wait() }()
	select {
	case err := <-done:
		return err
	case <-time.After(d):
		syscall.Kill(-cmd.Process.Pid, syscall.SIGKILL) // the whole process group
		cmd.Process.Kill()
		<-done
		return fmt.Errorf("timeout after %v", d)
	}
}

// ---------------------------------------------------------------- exec helpers

// safeExec runs p.Exec with a panic guard (harness bugs become infra errors,
// fastgo panics are recovered inside the executors and reported there).
func safeExec(p props.Property, tr *props.Trace, keep bool) (out *props.Outcome) {
	defer func() {
		if r := recover(); r != nil {
			buf := make([]byte, 8192)
			n := runtime.Stack(buf, false)
			out = &props.Outcome{Evals: 1}
			out.Violations = append(out.Violations, props.Violation{Oracle: p.ID() + ".harness_panic", Detail: fmt.Sprintf("%v\n%s", r, buf[:n]), Trace: tr})
		}
	}()
	return p.Exec(tr, keep)
}

// ---------------------------------------------------------------- worker

type workerLine struct {
	Kind  string         `json:"kind"` // start | out | done
	Idx   int            `json:"idx"`
	Level int            `json:"level"`
	Out   *props.Outcome `json:"out,omitempty"`
}

func cmdWorker(a []string) {
	hangProp = a[0]
	if pf := os.Getenv("FGSIM_CPUPROFILE"); pf != "" {
		f, _ := os.Create(pf)
		pprof.StartCPUProfile(f)
		defer pprof.StopCPUProfile()
	}
	p := props.Registry[a[0]]
	tier := a[1]
	seed, _ := strconv.ParseUint(a[2], 10, 64)
	shard, _ := strconv.Atoi(a[3])
	nshards, _ := strconv.Atoi(a[4])
	start, _ := strconv.Atoi(a[5])
	runs := p.Runs(tier)
	w := bufio.NewWriterSize(os.Stdout, 1<<20)
	enc := json.NewEncoder(w)
	var mu sync.Mutex
	cur := -1
	curStart := time.Now()
	// wall-clock hang guard: a run that normally takes milliseconds
	go func() {
		lastTick, lastChange := int64(-1), time.Now()
		for {
			time.Sleep(2 * time.Second)
			mu.Lock()
			c, st := cur, curStart
			mu.Unlock()
			if t := atomic.LoadInt64(&props.ProgressTick); t != lastTick {
				lastTick, lastChange = t, time.Now()
			}
			if st.After(lastChange) {
				lastChange = st
			}
			// no (sub-)run has completed for hangLimit: that is a hang, however
			// long the run index as a whole (a sweep) legitimately takes
			if c >= 0 && time.Since(lastChange) > hangLimit() {
				fmt.Fprintf(os.Stderr, "HANG idx=%d\n", c)
				os.Exit(3)
			}
		}
	}()
	violations := 0
	for i := start; i < runs; i++ {
		if i%nshards != shard {
			continue
		}
		mu.Lock()
		cur, curStart = i, time.Now()
		mu.Unlock()
		enc.Encode(workerLine{Kind: "start", Idx: i, Level: archLevel()})
		w.Flush()
		tr := genTrace(p, tier, seed, i)
		out := safeExec(p, tr, false)
		violations += len(out.Violations)
		if violations > 40 {
			// keep the traces of the first violations only
			for k := range out.Violations {
				out.Violations[k].Trace = nil
			}
		}
		if len(out.Sigs) > 64 {
			out.Sigs = out.Sigs[:64]
		}
		enc.Encode(workerLine{Kind: "out", Idx: i, Level: archLevel(), Out: out})
	}
	mu.Lock()
	cur = -1
	mu.Unlock()
	enc.Encode(workerLine{Kind: "done", Level: archLevel()})
	w.Flush()
}

// hangLimit is the per-run-index wall-clock guard. Run indices that sweep a
// fault dimension legitimately take minutes; all others take milliseconds.
func hangLimit() time.Duration {
	if s := os.Getenv("VERIF_HANG_SECONDS"); s != "" {
		if v, err := strconv.Atoi(s); err == nil {
			return time.Duration(v) * time.Second
		}
	}
	// measured between completions of (sub-)runs, each of which takes
	// milliseconds (seconds for the largest inputs under full load)
	return 90 * time.Second
}

var hangProp string

// ---------------------------------------------------------------- replay

func loadTrace(path string) (*props.Trace, error) {
	b, err := os.ReadFile(path)
	if err != nil {
		return nil, err
	}
	var tr props.Trace
	if err := json.Unmarshal(b, &tr); err != nil {
		return nil, err
	}
	return &tr, nil
}

func saveTrace(path string, tr *props.Trace) error {
	b, _ := json.MarshalIndent(tr, "", " ")
	os.MkdirAll(filepath.Dir(path), 0o755)
	return os.WriteFile(path, b, 0o644)
}

// reexecAtLevel re-runs this process with the level forced, if needed.
func reexecAtLevel(level int) (reexeced bool, code int) {
	if level == levelPortable {
		if portableBuild {
			return false, 0
		}
		pb := filepath.Join(verifDir(), "bin", "fgsim-portable")
		if _, err := os.Stat(pb); err != nil {
			fmt.Fprintln(os.Stderr, "bin/fgsim-portable missing (check.sh builds it)")
			return true, exitInfra
		}
		err := syscall.Exec(pb, append([]string{pb}, os.Args[1:]...), os.Environ())
		fmt.Fprintln(os.Stderr, "exec failed:", err)
		return true, exitInfra
	}
	if archLevel() == level && !portableBuild {
		return false, 0
	}
	if os.Getenv("FGSIM_REEXEC") != "" {
		fmt.Fprintf(os.Stderr, "cannot force acceleration level %d (have %d)\n", level, archLevel())
		return true, exitInfra
	}
	// replace this process (same pid, so the parent's timeout kill reaches it)
	self, _ := os.Executable()
	env := append(os.Environ(), fmt.Sprintf("FASTGO_VERIF_ARCHLEVEL=%d", level), "FGSIM_REEXEC=1")
	err := syscall.Exec(self, append([]string{self}, os.Args[1:]...), env)
	fmt.Fprintln(os.Stderr, "re-exec failed:", err)
	return true, exitInfra
}

func cmdReplay(path string) int {
	tr, err := loadTrace(path)
	if err != nil {
		fmt.Fprintln(os.Stderr, "replay:", err)
		return exitInfra
	}
	p := props.Registry[tr.Property]
	if p == nil {
		fmt.Fprintln(os.Stderr, "replay: unknown property", tr.Property)
		return exitInfra
	}
	hangProp = tr.Property
	if strings.HasSuffix(tr.Oracle, ".level_diff") {
		return replayLevelDiff(path, tr)
	}
	if tr.Property == "C17" && tr.Note == "free" {
		return replayFree(path, tr)
	}
	if re, code := reexecAtLevel(tr.Level); re {
		return code
	}
	if strings.HasSuffix(tr.Oracle, ".hang") {
		// the worker's watchdog applies: run under a timer
		done := make(chan *props.Outcome, 1)
		go func() { done <- safeExec(p, tr, false) }()
		lastTick, lastChange := int64(-1), time.Now()
		for {
			select {
			case <-done:
				fmt.Printf("replay: run finished, hang not reproduced\n")
				return exitOK
			case <-time.After(2 * time.Second):
			}
			if t := atomic.LoadInt64(&props.ProgressTick); t != lastTick {
				lastTick, lastChange = t, time.Now()
			}
			if time.Since(lastChange) > hangLimit() {
				fmt.Printf("VIOLATION property=%s replay=%s\n  oracle=%s no (sub-)run completed for %v\n", tr.Property, path, tr.Oracle, hangLimit())
				return exitViolation
			}
		}
	}
	if pl := tr.Prelude; pl != nil {
		for i := 0; i < tr.Index; i++ {
			if i%pl.NShards == pl.Shard {
				safeExec(p, genTrace(p, pl.Tier, tr.Seed, i), false)
			}
		}
	}
	out := safeExec(p, tr, os.Getenv("FGSIM_VERBOSE") != "")
	for _, v := range out.Violations {
		if tr.Oracle == "" || v.Oracle == tr.Oracle {
			fmt.Printf("VIOLATION property=%s replay=%s\n  oracle=%s level=%d log_hash=%x\n  %s\n", tr.Property, path, v.Oracle, archLevel(), out.LogHash, v.Detail)
			return exitViolation
		}
	}
	fmt.Printf("replay: no violation of %s reproduced (level %d, %d other violations, log_hash=%x)\n", tr.Oracle, archLevel(), len(out.Violations), out.LogHash)
	for _, v := range out.Violations {
		fmt.Printf("  other: %s %s\n", v.Oracle, v.Detail)
	}
	return exitOK
}

// digestAtLevel executes the trace in a child at the given level and returns
// its digest line.
func binAndEnvForLevel(level int) (string, []string) {
	self, _ := os.Executable()
	if level == levelPortable {
		return filepath.Join(verifDir(), "bin", "fgsim-portable"), os.Environ()
	}
	if portableBuild {
		self = filepath.Join(verifDir(), "bin", "fgsim")
	}
	return self, append(os.Environ(), fmt.Sprintf("FASTGO_VERIF_ARCHLEVEL=%d", level))
}

func digestAtLevel(path string, level int) (string, error) {
	bin, env := binAndEnvForLevel(level)
	cmd := exec.Command(bin, "digest", path)
	cmd.Env = env
	var buf bytes.Buffer
	cmd.Stdout = &buf
	cmd.Stderr = &buf
	err := runWithTimeout(cmd, 10*time.Minute)
	return strings.TrimSpace(buf.String()), err
}

func replayLevelDiff(path string, tr *props.Trace) int {
	var lv []int
	for _, s := range strings.Split(tr.Note, ",") {
		if v, err := strconv.Atoi(strings.TrimSpace(s)); err == nil {
			lv = append(lv, v)
		}
	}
	if len(lv) < 2 {
		lv = []int{0, 1, 3, 4, levelPortable}
	}
	res := map[string][]int{}
	for _, l := range lv {
		d, err := digestAtLevel(path, l)
		if err != nil {
			d = "crash: " + err.Error() + " " + d
			if len(d) > 300 {
				d = d[:300]
			}
		}
		res[d] = append(res[d], l)
	}
	if len(res) > 1 {
		fmt.Printf("VIOLATION property=%s replay=%s\n  oracle=%s\n", tr.Property, path, tr.Oracle)
		for d, ls := range res {
			fmt.Printf("  levels %v: %s\n", ls, d)
		}
		return exitViolation
	}
	fmt.Println("replay: results equal at levels", lv)
	return exitOK
}

// ---------------------------------------------------------------- minimize

func hasOracle(out *props.Outcome, oracle string) *props.Violation {
	for i := range out.Violations {
		if out.Violations[i].Oracle == oracle {
			return &out.Violations[i]
		}
	}
	return nil
}

func cmdMinimize(in, outPath string) int {
	tr, err := loadTrace(in)
	if err != nil {
		fmt.Fprintln(os.Stderr, "minimize:", err)
		return exitInfra
	}
	if re, code := reexecAtLevel(tr.Level); re {
		return code
	}
	p := props.Registry[tr.Property]
	oracle := tr.Oracle
	first := safeExec(p, tr, false)
	v := hasOracle(first, oracle)
	if v == nil {
		fmt.Fprintln(os.Stderr, "minimize: violation does not reproduce")
		return exitInfra
	}
	cur := v.Trace
	if cur == nil {
		cur = tr
	}
	deadline := time.Now().Add(90 * time.Second)
	attempts := 0
	improved := true
	for improved && time.Now().Before(deadline) {
		improved = false
		for _, cand := range p.Shrinks(cur) {
			if time.Now().After(deadline) {
				break
			}
			attempts++
			cand.Sweep = false
			o := execWithin(p, cand, 45*time.Second)
			if o == nil {
				// a candidate that does not terminate: keep what we have
				fmt.Fprintln(os.Stderr, "minimize: a candidate ran into the watchdog; stopping with the current trace")
				finishMinimize(p, cur, tr, oracle, outPath, attempts)
				os.Exit(exitOK)
			}
			if cv := hasOracle(o, oracle); cv != nil {
				next := cv.Trace
				if next == nil {
					next = cand
				}
				if props.Weight(next) < props.Weight(cur) {
					cur = next
					improved = true
					break
				}
			}
		}
	}
	return finishMinimize(p, cur, tr, oracle, outPath, attempts)
}

func finishMinimize(p props.Property, cur, tr *props.Trace, oracle, outPath string, attempts int) int {
	cur.Oracle = oracle
	cur.Level = tr.Level
	cur.Seed, cur.Index = tr.Seed, tr.Index
	if fo := execWithin(p, cur, 45*time.Second); fo != nil {
		if fv := hasOracle(fo, oracle); fv != nil {
			cur.Detail = fv.Detail
			cur.LogHash = fo.LogHash
		}
	}
	if err := saveTrace(outPath, cur); err != nil {
		fmt.Fprintln(os.Stderr, "minimize:", err)
		return exitInfra
	}
	fmt.Fprintf(os.Stderr, "minimize: %d attempts, weight %d -> %d\n", attempts, props.Weight(tr), props.Weight(cur))
	return exitOK
}

// execWithin runs the trace with a wall-clock guard; nil = did not finish.
func execWithin(p props.Property, tr *props.Trace, d time.Duration) *props.Outcome {
	done := make(chan *props.Outcome, 1)
	go func() { done <- safeExec(p, tr, false) }()
	select {
	case o := <-done:
		return o
	case <-time.After(d):
		return nil
	}
}

// ---------------------------------------------------------------- known findings

type finding struct {
	ID       string            `json:"id"`
	Property string            `json:"property"`
	Status   string            `json:"status"` // open | fixed
	Oracles  []string          `json:"oracles"`
	Match    map[string]string `json:"match,omitempty"`
	What     string            `json:"what"`
	Commit   string            `json:"commit,omitempty"`
}

type findingsFile struct {
	Findings []finding `json:"findings"`
}

func loadFindings() []finding {
	b, err := os.ReadFile(filepath.Join(verifDir(), "known_findings.json"))
	if err != nil {
		return nil
	}
	var f findingsFile
	if err := json.Unmarshal(b, &f); err != nil {
		fmt.Fprintln(os.Stderr, "known_findings.json:", err)
		os.Exit(exitInfra)
	}
	return f.Findings
}

func matchFinding(fs []finding, prop string, v *props.Violation) *finding {
	for i := range fs {
		f := &fs[i]
		if f.Status != "open" || f.Property != prop {
			continue
		}
		ok := false
		for _, o := range f.Oracles {
			if o == v.Oracle {
				ok = true
			}
		}
		if !ok {
			continue
		}
		for k, want := range f.Match {
			got := v.Features[k]
			matched := false
			for _, alt := range strings.Split(want, "|") {
				if alt == got {
					matched = true
				}
			}
			if !matched {
				ok = false
			}
		}
		if ok {
			return f
		}
	}
	return nil
}

// ---------------------------------------------------------------- check (parent)

type agg struct {
	mu        sync.Mutex
	evals     int
	events    uint64
	sigs      map[uint64]struct{}
	stats     map[string]int
	samples   []string
	sampled   map[int]bool
	digests   map[int]map[int]uint64 // idx -> level -> digest
	indep     map[int]bool
	inhash    map[int]map[int]uint64
	viol      []levelViolation
	violCount int
	runsDone  map[int]int // level -> runs
	infra     []string
}

var batchDeadline time.Time

type levelViolation struct {
	level int
	idx   int
	v     props.Violation
}

func cmdCheck(id, tier string) int {
	t0 := time.Now()
	p := props.Registry[id]
	if p == nil {
		fmt.Fprintln(os.Stderr, "unknown property", id)
		return exitInfra
	}
	meta := props.Metas[id]
	seed := seedFromEnv()
	self, _ := os.Executable()
	vd := verifDir()
	fmt.Printf("fgsim check %s tier=%s seed=%d\n", id, tier, seed)
	levels, detected, notes := runnableLevels(self)
	for _, n := range notes {
		fmt.Println("note:", n)
	}
	if len(levels) == 0 {
		fmt.Fprintln(os.Stderr, "no acceleration level is runnable (probe failed)")
		return exitInfra
	}
	if s := os.Getenv("VERIF_LEVELS"); s != "" {
		var keep []int
		for _, x := range strings.Split(s, ",") {
			v, _ := strconv.Atoi(x)
			for _, l := range levels {
				if l == v {
					keep = append(keep, l)
				}
			}
		}
		levels = keep
	}
	if _, err := os.Stat(filepath.Join(filepath.Dir(self), "fgsim-portable")); err == nil && os.Getenv("VERIF_NO_PORTABLE") == "" && (os.Getenv("VERIF_LEVELS") == "" || strings.Contains(","+os.Getenv("VERIF_LEVELS")+",", ",10,")) {
		levels = append(levels, levelPortable)
	}
	fmt.Printf("runnable levels %v (CPUID detected %d; %d = portable build, -tags noasmtest)\n", levels, detected, levelPortable)
	runs := p.Runs(tier)
	ncpu := runtime.NumCPU()
	if s := os.Getenv("VERIF_WORKERS"); s != "" {
		ncpu, _ = strconv.Atoi(s)
	}
	shards := ncpu / len(levels)
	if shards < 1 {
		shards = 1
	}
	a := &agg{sigs: map[uint64]struct{}{}, stats: map[string]int{}, digests: map[int]map[int]uint64{}, indep: map[int]bool{}, inhash: map[int]map[int]uint64{}, runsDone: map[int]int{}}
	var wg sync.WaitGroup
	batchLimit := 12 * time.Minute
	if tier == "thorough" {
		batchLimit = 150 * time.Minute
	}
	if s := os.Getenv("VERIF_BATCH_SECONDS"); s != "" {
		if v, err := strconv.Atoi(s); err == nil {
			batchLimit = time.Duration(v) * time.Second
		}
	}
	batchDeadline = time.Now().Add(batchLimit)
	for _, l := range levels {
		for s := 0; s < shards; s++ {
			wg.Add(1)
			go func(l, s int) {
				defer wg.Done()
				runShard(self, p, tier, seed, l, s, shards, a)
			}(l, s)
		}
	}
	wg.Wait()
	if a.stats["shards_cut_by_batch_deadline"] > 0 {
		fmt.Printf("note: batch watchdog (%v) reached; %d worker shard(s) were stopped early\n", batchLimit, a.stats["shards_cut_by_batch_deadline"])
		if a.violCount == 0 {
			a.infra = append(a.infra, "batch watchdog reached without any violation: the machine is too slow or a worker is stuck between runs")
		}
	}
	if id == "C17" && os.Getenv("VERIF_NO_RACE_PASS") == "" {
		racePhase(vd, seed, tier, levels, a)
	}
	if len(a.infra) > 0 {
		for _, m := range a.infra {
			fmt.Fprintln(os.Stderr, "infrastructure:", m)
		}
		return exitInfra
	}
	// cross-level comparison
	if meta.CrossLevel {
		var idxs []int
		for i := range a.digests {
			idxs = append(idxs, i)
		}
		sort.Ints(idxs)
		for _, i := range idxs {
			if !a.indep[i] {
				continue
			}
			byDigest := map[uint64][]int{}
			for l, d := range a.digests[i] {
				byDigest[d] = append(byDigest[d], l)
			}
			a.stats["runs_compared_across_levels"]++
			if len(byDigest) > 1 {
				tr := genTrace(p, tier, seed, i)
				var parts []string
				var lv []string
				for d, ls := range byDigest {
					sort.Ints(ls)
					parts = append(parts, fmt.Sprintf("levels %v digest %x", ls, d))
				}
				for _, l := range levels {
					lv = append(lv, strconv.Itoa(l))
				}
				sort.Strings(parts)
				tr.Oracle = id + ".level_diff"
				tr.Note = strings.Join(lv, ",")
				tr.Detail = strings.Join(parts, "; ")
				feat := explainLevelDiff(self, vd, tr, levels)
				if d := feat["explanation"]; d != "" {
					tr.Detail += "; " + d
				}
				a.viol = append(a.viol, levelViolation{level: levels[0], idx: i, v: props.Violation{Oracle: tr.Oracle, Detail: tr.Detail, Trace: tr, Features: feat}})
				a.violCount++
			}
		}
	}
	// triage violations
	fs := loadFindings()
	type group struct {
		first  levelViolation
		count  int
		known  *finding
		levels map[int]bool
	}
	groups := map[string]*group{}
	var order []string
	for _, lv := range a.viol {
		kf := matchFinding(fs, id, &lv.v)
		key := lv.v.Oracle
		if kf != nil {
			key = "known:" + kf.ID
		} else if c := lv.v.Features["group"]; c != "" {
			key += "/" + c
		} else if c := lv.v.Features["class"]; c != "" {
			key += "/" + c
		}
		g := groups[key]
		if g == nil {
			g = &group{first: lv, known: kf, levels: map[int]bool{}}
			groups[key] = g
			order = append(order, key)
		}
		if g.first.v.Trace == nil && lv.v.Trace != nil {
			g.first = lv
		}
		g.count++
		g.levels[lv.level] = true
	}
	sort.Strings(order)
	exit := exitOK
	knownSeen := map[string]int{}
	var reported []map[string]interface{}
	for _, key := range order {
		g := groups[key]
		if g.known != nil {
			knownSeen[g.known.ID] += g.count
			continue
		}
		tr := g.first.v.Trace
		if tr == nil {
			// the worker dropped the trace (many violations): regenerate the run
			tr = genTrace(p, tier, seed, g.first.idx)
		}
		tr.Level = g.first.level
		if strings.HasSuffix(tr.Oracle, ".level_diff") {
			tr.Level = detected
		}
		base := filepath.Join(vd, "failures", fmt.Sprintf("%s_%s_seed%d_idx%d_L%d", id, sanitize(g.first.v.Oracle), seed, g.first.idx, g.first.level))
		raw := base + ".raw.json"
		min := base + ".json"
		tr.Oracle = g.first.v.Oracle
		tr.Detail = g.first.v.Detail
		saveTrace(raw, tr)
		replayPath := raw
		if !strings.HasSuffix(tr.Oracle, ".level_diff") && !strings.HasSuffix(tr.Oracle, ".crash") && !strings.HasSuffix(tr.Oracle, ".hang") {
			cmd := exec.Command(self, "minimize", raw, min)
			cmd.Stderr = os.Stderr
			if err := runWithTimeout(cmd, 4*time.Minute); err == nil {
				replayPath = min
			}
		}
		// confirm in a fresh process
		code, outp := runReplay(self, replayPath)
		if code != exitViolation && replayPath != raw {
			replayPath = raw
			code, outp = runReplay(self, replayPath)
		}
		if code != exitViolation && strings.HasSuffix(tr.Oracle, ".crash") && diedHard(outp) {
			// the fresh process died the same way (a Go runtime fatal error exits with status 2, which is also
			// this tool's "infrastructure" status): that IS the reproduction of a crash
			code = exitViolation
			outp = "replay: the fresh process crashed as the worker did\n" + firstLines(outp, 12)
		}
		if code != exitViolation && !strings.HasSuffix(tr.Oracle, ".level_diff") && !strings.HasSuffix(tr.Oracle, ".hang") {
			// state surviving from run to run inside the worker process? replay
			// the shard's earlier run indices first
			pt := genTrace(p, tier, seed, g.first.idx)
			pt.Level, pt.Oracle, pt.Detail = g.first.level, g.first.v.Oracle, g.first.v.Detail
			pt.Prelude = &props.Prelude{Tier: tier, Shard: g.first.idx % shards, NShards: shards}
			pre := base + ".prelude.json"
			saveTrace(pre, pt)
			if c2, o2 := runReplay(self, pre); c2 == exitViolation {
				replayPath, code, outp = pre, c2, o2
			}
		}
		if code != exitViolation && strings.HasSuffix(g.first.v.Oracle, ".hang") {
			// a slow run, not a hang: it finished when retried alone (DESIGN 2.8)
			fmt.Printf("note: run %d at level %d exceeded the per-run watchdog in its worker but finished when retried alone; not a hang\n", g.first.idx, g.first.level)
			a.stats["slow_runs_retried"]++
			continue
		}
		if code != exitViolation && exit == exitViolation {
			// another violation of this batch is already confirmed: report this
			// one as unconfirmed instead of turning the verdict into exit 2
			fmt.Printf("note: %s (run %d, level %d, %d occurrences) was observed in a worker but did not reproduce in a fresh process (process-global state of the code under test?); not counted\n", g.first.v.Oracle, g.first.idx, g.first.level, g.count)
			a.stats["violations_not_reproduced"]++
			continue
		}
		if code != exitViolation {
			fmt.Fprintf(os.Stderr, "violation %s (run %d, level %d) did not reproduce in a fresh process: harness problem\n%s\n", g.first.v.Oracle, g.first.idx, g.first.level, outp)
			return exitInfra
		}
		var ls []int
		for l := range g.levels {
			ls = append(ls, l)
		}
		sort.Ints(ls)
		fmt.Printf("VIOLATION property=%s replay=%s\n", id, replayPath)
		fmt.Printf("  oracle=%s group=%s occurrences=%d levels=%v\n", g.first.v.Oracle, key, g.count, ls)
		for _, line := range strings.Split(strings.TrimSpace(outp), "\n")[1:] {
			if len(line) > 400 {
				line = line[:400]
			}
			fmt.Println("  " + strings.TrimSpace(line))
		}
		reported = append(reported, map[string]interface{}{"oracle": g.first.v.Oracle, "occurrences": g.count, "levels": ls, "replay": replayPath})
		exit = exitViolation
	}
	var knownLines []string
	for _, f := range fs {
		if f.Property == id && f.Status == "open" {
			line := fmt.Sprintf("KNOWN-FINDING: property=%s %s [%s; observed %d time(s) in this run]", id, f.What, f.ID, knownSeen[f.ID])
			fmt.Println(line)
			knownLines = append(knownLines, line)
		}
	}
	wall := time.Since(t0).Seconds()
	writeEvidence(vd, id, tier, seed, meta, a, levels, detected, notes, runs, shards, wall, reported, knownLines)
	fmt.Printf("%s %s: %d evaluations over %d run indices x %d levels, %d distinct non-trivial schedules, %d events, %.1fs, violations=%d\n",
		id, tier, a.evals, runs, len(levels), len(a.sigs), a.events, wall, len(reported))
	return exit
}

func sanitize(s string) string {
	return strings.Map(func(r rune) rune {
		if r >= 'a' && r <= 'z' || r >= 'A' && r <= 'Z' || r >= '0' && r <= '9' || r == '_' {
			return r
		}
		return '_'
	}, s)
}

// diedHard: the output of a process that was killed by the Go runtime (fault,
// fatal error) rather than ending through this tool's own exit paths.
func diedHard(out string) bool {
	return strings.Contains(out, "fatal error:") || strings.Contains(out, "unexpected signal") || strings.Contains(out, "[signal SIG") || strings.Contains(out, "unexpected fault address")
}

func firstLines(s string, n int) string {
	ls := strings.Split(strings.TrimSpace(s), "\n")
	if len(ls) > n {
		ls = ls[:n]
	}
	return strings.Join(ls, "\n")
}

func runReplay(self, path string) (int, string) {
	cmd := exec.Command(self, "replay", path)
	var buf bytes.Buffer
	cmd.Stdout = &buf
	cmd.Stderr = &buf
	err := runWithTimeout(cmd, 15*time.Minute)
	if err == nil {
		return 0, buf.String()
	}
	if ee, ok := err.(*exec.ExitError); ok {
		return ee.ExitCode(), buf.String()
	}
	return exitInfra, buf.String() + err.Error()
}

// runShard runs one (level, shard) worker, restarting it after a crash or hang.
func runShard(self string, p props.Property, tier string, seed uint64, level, shard, nshards int, a *agg) {
	start := 0
	runs := p.Runs(tier)
	restarts := 0
	for start < runs {
		bin := self
		env := append(os.Environ(), fmt.Sprintf("FASTGO_VERIF_ARCHLEVEL=%d", level))
		if level == levelPortable {
			bin = filepath.Join(filepath.Dir(self), "fgsim-portable")
			env = os.Environ()
		}
		cmd := exec.Command(bin, "worker", p.ID(), tier, strconv.FormatUint(seed, 10), strconv.Itoa(shard), strconv.Itoa(nshards), strconv.Itoa(start))
		cmd.Env = env
		stdout, _ := cmd.StdoutPipe()
		var stderr bytes.Buffer
		cmd.Stderr = &stderr
		if err := cmd.Start(); err != nil {
			a.mu.Lock()
			a.infra = append(a.infra, "cannot start worker: "+err.Error())
			a.mu.Unlock()
			return
		}
		dec := json.NewDecoder(bufio.NewReaderSize(stdout, 1<<20))
		cur := -1
		done := false
		cut := false
		stopTimer := time.AfterFunc(time.Until(batchDeadline), func() {
			cut = true
			cmd.Process.Kill()
		})
		for {
			var wl workerLine
			if err := dec.Decode(&wl); err != nil {
				break
			}
			switch wl.Kind {
			case "start":
				cur = wl.Idx
			case "out":
				a.add(wl.Idx, level, wl.Out)
				cur = -1
				start = wl.Idx + 1
			case "done":
				done = true
			}
		}
		io.Copy(io.Discard, stdout)
		err := cmd.Wait()
		stopTimer.Stop()
		if done && err == nil {
			return
		}
		if cut {
			a.mu.Lock()
			a.stats["shards_cut_by_batch_deadline"]++
			a.mu.Unlock()
			return
		}
		// abnormal end
		msg := strings.TrimSpace(stderr.String())
		if len(msg) > 3000 {
			msg = msg[:1500] + "\n...\n" + msg[len(msg)-1500:]
		}
		if cur < 0 {
			a.mu.Lock()
			a.infra = append(a.infra, fmt.Sprintf("worker level %d shard %d ended abnormally between runs: %v\n%s", level, shard, err, msg))
			a.mu.Unlock()
			return
		}
		tr := genTrace(p, tier, seed, cur)
		tr.Level = level
		kind := ".crash"
		if strings.Contains(msg, fmt.Sprintf("HANG idx=%d", cur)) {
			kind = ".hang"
		}
		v := props.Violation{Oracle: p.ID() + kind, Detail: fmt.Sprintf("worker process died during run %d at level %d: %v\n%s", cur, level, err, msg), Trace: tr, Features: map[string]string{}}
		a.mu.Lock()
		a.viol = append(a.viol, levelViolation{level: level, idx: cur, v: v})
		a.violCount++
		a.mu.Unlock()
		start = cur + 1
		restarts++
		if restarts >= 3 {
			// three crashes/hangs in one shard: enough to report; do not spend
			// the batch waiting on more watchdog timeouts
			a.mu.Lock()
			a.stats["shards_abandoned_after_3_crashes_or_hangs"]++
			a.mu.Unlock()
			return
		}
	}
}

func (a *agg) add(idx, level int, o *props.Outcome) {
	a.mu.Lock()
	defer a.mu.Unlock()
	a.evals += o.Evals
	a.events += o.Events
	for _, s := range o.Sigs {
		a.sigs[s] = struct{}{}
	}
	for k, v := range o.Stats {
		a.stats[k] += v
	}
	if o.Sample != "" && len(a.samples) < 8 && !a.sampled[idx] {
		if a.sampled == nil {
			a.sampled = map[int]bool{}
		}
		a.sampled[idx] = true
		a.samples = append(a.samples, fmt.Sprintf("run %d (first seen at level %d): %s", idx, level, o.Sample))
	}
	if a.digests[idx] == nil {
		a.digests[idx] = map[int]uint64{}
	}
	a.digests[idx][level] = o.Digest
	if _, ok := a.indep[idx]; !ok {
		a.indep[idx] = o.LevelIndep
	} else if !o.LevelIndep {
		a.indep[idx] = false
	}
	a.runsDone[level]++
	for _, v := range o.Violations {
		a.violCount++
		if len(a.viol) < 4000 {
			a.viol = append(a.viol, levelViolation{level: level, idx: idx, v: v})
		}
	}
}

func writeEvidence(vd, id, tier string, seed uint64, meta props.Meta, a *agg, levels []int, detected int, notes []string, runs, shards int, wall float64, reported []map[string]interface{}, known []string) {
	faults := map[string]int{}
	reach := map[string]int{}
	for k, v := range a.stats {
		if strings.Contains(k, "fault") || strings.HasPrefix(k, "inj_") {
			faults[k] = v
		} else {
			reach[k] = v
		}
	}
	var samples []interface{}
	for _, s := range a.samples {
		samples = append(samples, s)
	}
	// one run written out completely: the replayable trace of run index 0
	if p := props.Registry[id]; p != nil {
		samples = append(samples, map[string]interface{}{"full_trace_of_run_0": genTrace(p, tier, seed, 0)})
	}
	if known == nil {
		known = []string{}
	}
	if notes == nil {
		notes = []string{}
	}
	if reported == nil {
		reported = []map[string]interface{}{}
	}
	hours := wall / 3600
	if hours <= 0 {
		hours = 1e-9
	}
	cov := map[string]interface{}{
		"evaluations":          a.evals,
		"distinct_nontrivial":  len(a.sigs),
		"rule":                 meta.Rule,
		"samples":              samples,
		"run_indices":          runs,
		"levels_run":           levels,
		"cpuid_detected_level": detected,
		"level_notes":          notes,
		"worker_processes":     len(levels) * shards,
		"runs_per_level":       a.runsDone,
		"simulated_events":     a.events,
		"simulated_time_note":  "fastgo has no timers; logical time = number of simulator events (seam calls, operations, task switches)",
		"runs_per_hour":        int(float64(a.evals) / hours),
		"seeds_per_hour":       int(float64(a.evals) / hours),
		"faults_fired":         faults,
		"reach":                reach,
		"real_components":      meta.Real,
		"simulated_components": meta.Simulated,
		"violations_reported":  reported,
		"known_findings":       known,
		"exhaustive":           false,
	}
	ev := map[string]interface{}{
		"property_id": id,
		"tier":        tier,
		"seed":        int64(seed & 0x7fffffffffffffff),
		"level":       meta.Category,
		"coverage":    cov,
		"assumptions": meta.Assumptions,
		"wall_s":      wall,
		"violations":  len(reported),
	}
	b, _ := json.MarshalIndent(ev, "", " ")
	os.MkdirAll(filepath.Join(vd, "evidence"), 0o755)
	if err := os.WriteFile(filepath.Join(vd, "evidence", id+".json"), b, 0o644); err != nil {
		fmt.Fprintln(os.Stderr, "evidence:", err)
	}
}

// ---------------------------------------------------------------- selfcheck

// selfcheck determinism: every property, N seeds, executed in separate
// processes at several GOMAXPROCS values; log hashes must agree.
func cmdSelfcheck(a []string) int {
	if len(a) > 0 && a[0] == "hashes" {
		// child: print log hashes for the given property and run range
		p := props.Registry[a[1]]
		seed, _ := strconv.ParseUint(a[2], 10, 64)
		n, _ := strconv.Atoi(a[3])
		for i := 0; i < n; i++ {
			tr := genTrace(p, "quick", seed, i)
			o := safeExec(p, tr, false)
			fmt.Printf("%s %d %x %x %d %d\n", a[1], i, o.LogHash, o.Digest, o.Evals, len(o.Violations))
		}
		return 0
	}
	n := 40
	if len(a) > 1 {
		n, _ = strconv.Atoi(a[1])
	}
	self, _ := os.Executable()
	// run the children from a private copy: check.sh may rebuild bin/fgsim
	// (possibly against a patched fastgo) while a long self-check is running
	if b, err := os.ReadFile(self); err == nil {
		if f, err := os.CreateTemp("", "fgsim-selfcheck-*"); err == nil {
			f.Write(b)
			f.Close()
			os.Chmod(f.Name(), 0o755)
			self = f.Name()
			defer os.Remove(self)
		}
	}
	ids := props.IDs()
	if len(a) > 2 {
		ids = a[2:]
	}
	bad := 0
	type job struct {
		id   string
		seed uint64
	}
	var mu sync.Mutex
	var wg sync.WaitGroup
	sem := make(chan struct{}, 8)
	total := 0
	for _, id := range ids {
		for _, seed := range []uint64{1, 7} {
			wg.Add(1)
			go func(id string, seed uint64) {
				defer wg.Done()
				sem <- struct{}{}
				defer func() { <-sem }()
				var ref string
				for k, gmp := range []string{"1", "4", "16", "16"} {
					cmd := exec.Command(self, "selfcheck", "hashes", id, strconv.FormatUint(seed, 10), strconv.Itoa(n))
					cmd.Env = append(os.Environ(), "GOMAXPROCS="+gmp)
					out, err := cmd.Output()
					if err != nil {
						mu.Lock()
						fmt.Printf("determinism: %s seed %d GOMAXPROCS=%s: %v\n", id, seed, gmp, err)
						bad++
						mu.Unlock()
						return
					}
					if k == 0 {
						ref = string(out)
					} else if string(out) != ref {
						mu.Lock()
						fmt.Printf("determinism: %s seed %d differs at GOMAXPROCS=%s\n", id, seed, gmp)
						bad++
						mu.Unlock()
					}
				}
				mu.Lock()
				total += n
				mu.Unlock()
			}(id, seed)
		}
	}
	wg.Wait()
	if bad > 0 {
		fmt.Printf("determinism selfcheck FAILED (%d)\n", bad)
		return exitInfra
	}
	fmt.Printf("determinism selfcheck ok: %d properties x 2 seeds x %d runs x 4 processes (GOMAXPROCS 1/4/16/16)\n", len(ids), n)
	return 0
}

// ---------------------------------------------------------------- C17 race pass

// cmdRacePass (run by the -race build): free-running task sets, no
// synchronisation between tasks; outputs compared with solo runs. Race
// reports go to GORACE's log_path and are collected by the parent.
//
//	racepass <seed> <from> <to>      generated task sets
//	racepass trace <file> <repeat>   one recorded task set, repeated
func cmdRacePass(a []string) int {
	p := props.Registry["C17"]
	enc := json.NewEncoder(os.Stdout)
	if a[0] == "trace" {
		tr, err := loadTrace(a[1])
		if err != nil {
			fmt.Fprintln(os.Stderr, err)
			return exitInfra
		}
		rep, _ := strconv.Atoi(a[2])
		tr.Note = "free"
		bad := 0
		for i := 0; i < rep; i++ {
			o := safeExec(p, tr, false)
			bad += len(o.Violations)
			for _, v := range o.Violations {
				fmt.Printf("  %s %s\n", v.Oracle, v.Detail)
			}
		}
		if bad > 0 {
			return exitViolation
		}
		return exitOK
	}
	seed, _ := strconv.ParseUint(a[0], 10, 64)
	from, _ := strconv.Atoi(a[1])
	to, _ := strconv.Atoi(a[2])
	for i := from; i < to; i++ {
		tr := genTrace(p, "quick", seed^0x17, i)
		tr.Note = "free"
		o := safeExec(p, tr, false)
		o.Sigs = nil
		enc.Encode(workerLine{Kind: "out", Idx: i, Level: archLevel(), Out: o})
	}
	enc.Encode(workerLine{Kind: "done", Level: archLevel()})
	return exitOK
}

// racePhase runs the free-running pass with the race-detector build and folds
// its results into the aggregate. Returns infra problems as strings.
func racePhase(vd string, seed uint64, tier string, levels []int, a *agg) {
	raceBin := filepath.Join(vd, "bin", "fgsim-race")
	if _, err := os.Stat(raceBin); err != nil {
		a.infra = append(a.infra, "race-detector build bin/fgsim-race is missing (check.sh builds it for C17)")
		return
	}
	n := 40
	if tier == "thorough" {
		n = 400
	}
	tmp, err := os.MkdirTemp("", "fgsim-race")
	if err != nil {
		a.infra = append(a.infra, err.Error())
		return
	}
	defer os.RemoveAll(tmp)
	type job struct{ level, procs, from, to int }
	var jobs []job
	k := 0
	for _, l := range levels {
		for _, gp := range []int{2, 4, 16} {
			jobs = append(jobs, job{l, gp, k * n, (k + 1) * n})
			k++
		}
	}
	var wg sync.WaitGroup
	sem := make(chan struct{}, 4)
	for ji, j := range jobs {
		wg.Add(1)
		go func(ji int, j job) {
			defer wg.Done()
			sem <- struct{}{}
			defer func() { <-sem }()
			logp := filepath.Join(tmp, fmt.Sprintf("race_%d", ji))
			cmd := exec.Command(raceBin, "racepass", strconv.FormatUint(seed, 10), strconv.Itoa(j.from), strconv.Itoa(j.to))
			cmd.Env = append(os.Environ(), fmt.Sprintf("FASTGO_VERIF_ARCHLEVEL=%d", j.level), fmt.Sprintf("GOMAXPROCS=%d", j.procs),
				"GORACE=log_path="+logp+" halt_on_error=0 exitcode=0 history_size=3")
			var obuf bytes.Buffer
			cmd.Stdout = &obuf
			limit := 3 * time.Minute
			if tier == "thorough" {
				limit = 15 * time.Minute
			}
			err := runWithTimeout(cmd, limit)
			out := obuf.Bytes()
			if err != nil && strings.Contains(err.Error(), "timeout") {
				// task sets that never finish when run side by side: same class as a hang
				tr := &props.Trace{Property: "C17", Level: j.level, Seed: seed, Index: j.from, Stride: j.to - j.from, Note: "free", Oracle: "C17.free_running_hang",
					Detail: fmt.Sprintf("free-running task sets %d..%d (seed %d) at level %d GOMAXPROCS %d did not finish within %v; each set finishes in milliseconds when its tasks run alone", j.from, j.to, seed, j.level, j.procs, limit)}
				a.mu.Lock()
				a.viol = append(a.viol, levelViolation{level: j.level, idx: j.from, v: props.Violation{Oracle: tr.Oracle, Detail: tr.Detail, Trace: tr, Features: map[string]string{}}})
				a.violCount++
				a.mu.Unlock()
			} else if err != nil {
				a.mu.Lock()
				a.infra = append(a.infra, fmt.Sprintf("race pass level %d GOMAXPROCS %d: %v", j.level, j.procs, err))
				a.mu.Unlock()
				return
			}
			dec := json.NewDecoder(bytes.NewReader(out))
			for {
				var wl workerLine
				if dec.Decode(&wl) != nil {
					break
				}
				if wl.Kind == "out" {
					for vi := range wl.Out.Violations {
						if wl.Out.Violations[vi].Trace != nil {
							wl.Out.Violations[vi].Trace.Note = "free"
						}
					}
					a.add(1000000+wl.Idx, j.level, wl.Out)
				}
			}
			// race reports
			files, _ := filepath.Glob(logp + ".*")
			for _, f := range files {
				b, _ := os.ReadFile(f)
				reports := strings.Split(string(b), "==================")
				for _, rep := range reports {
					if !strings.Contains(rep, "WARNING: DATA RACE") {
						continue
					}
					a.mu.Lock()
					a.stats["race_reports_total"]++
					if strings.Contains(rep, "github.com/intel/fastgo") {
						tr := &props.Trace{Property: "C17", Level: j.level, Seed: seed, Index: j.from, Stride: j.to - j.from, Note: "free", Oracle: "C17.race_report",
							Detail: fmt.Sprintf("race detector report at level %d GOMAXPROCS %d (task sets %d..%d of seed %d):\n%s", j.level, j.procs, j.from, j.to, seed, clipStr(rep, 2500))}
						a.viol = append(a.viol, levelViolation{level: j.level, idx: j.from, v: props.Violation{Oracle: "C17.race_report", Detail: tr.Detail, Trace: tr, Features: map[string]string{}}})
						a.violCount++
					} else {
						a.infra = append(a.infra, "race report inside the harness itself:\n"+clipStr(rep, 1500))
					}
					a.mu.Unlock()
				}
			}
			a.mu.Lock()
			a.stats["race_pass_processes"]++
			a.mu.Unlock()
		}(ji, j)
	}
	wg.Wait()
}

func clipStr(s string, n int) string {
	if len(s) > n {
		return s[:n] + "..."
	}
	return s
}

// replayFree re-runs a free-running C17 task set with the race-detector build.
func replayFree(path string, tr *props.Trace) int {
	raceBin := filepath.Join(verifDir(), "bin", "fgsim-race")
	if _, err := os.Stat(raceBin); err != nil {
		fmt.Fprintln(os.Stderr, "replay: bin/fgsim-race missing; run ./check.sh racebuild")
		return exitInfra
	}
	if tr.Multi == nil {
		// a race report found over a range of generated task sets: re-run the range
		tmp, _ := os.MkdirTemp("", "fgsim-race")
		defer os.RemoveAll(tmp)
		logp := filepath.Join(tmp, "race")
		for _, gp := range []int{2, 4, 16} {
			span := tr.Stride
			if span <= 0 {
				span = 40
			}
			cmd := exec.Command(raceBin, "racepass", strconv.FormatUint(tr.Seed, 10), strconv.Itoa(tr.Index), strconv.Itoa(tr.Index+span))
			cmd.Env = append(os.Environ(), fmt.Sprintf("FASTGO_VERIF_ARCHLEVEL=%d", tr.Level), fmt.Sprintf("GOMAXPROCS=%d", gp), "GORACE=log_path="+logp+" halt_on_error=0 exitcode=0")
			if err := runWithTimeout(cmd, 3*time.Minute); err != nil && strings.Contains(err.Error(), "timeout") && strings.HasSuffix(tr.Oracle, "free_running_hang") {
				fmt.Printf("VIOLATION property=C17 replay=%s\n  oracle=%s the task sets did not finish within 3 minutes at GOMAXPROCS %d\n", path, tr.Oracle, gp)
				return exitViolation
			}
		}
		files, _ := filepath.Glob(logp + ".*")
		for _, f := range files {
			b, _ := os.ReadFile(f)
			if strings.Contains(string(b), "WARNING: DATA RACE") && strings.Contains(string(b), "github.com/intel/fastgo") {
				fmt.Printf("VIOLATION property=C17 replay=%s\n  oracle=C17.race_report\n%s\n", path, clipStr(string(b), 3000))
				return exitViolation
			}
		}
		fmt.Println("replay: no race report this time (the free-running pass does not control the interleaving)")
		return exitOK
	}
	for _, gp := range []int{2, 4, 16} {
		cmd := exec.Command(raceBin, "racepass", "trace", path, "20")
		cmd.Env = append(os.Environ(), fmt.Sprintf("FASTGO_VERIF_ARCHLEVEL=%d", tr.Level), fmt.Sprintf("GOMAXPROCS=%d", gp), "GORACE=halt_on_error=0 exitcode=0")
		out, err := cmd.CombinedOutput()
		if ee, ok := err.(*exec.ExitError); ok && ee.ExitCode() == exitViolation {
			fmt.Printf("VIOLATION property=C17 replay=%s\n  oracle=%s (free-running, GOMAXPROCS %d)\n%s\n", path, tr.Oracle, gp, clipStr(string(out), 2000))
			return exitViolation
		}
	}
	fmt.Println("replay: not reproduced in 60 free-running repetitions")
	return exitOK
}

// explainLevelDiff re-executes the trace at every level in explain mode and
// derives the features of the difference (for the known-findings matcher and
// for the report).
func explainLevelDiff(self, vd string, tr *props.Trace, levels []int) map[string]string {
	feat := map[string]string{}
	tmp, err := os.CreateTemp("", "fgsim-explain-*.json")
	if err != nil {
		return feat
	}
	defer os.Remove(tmp.Name())
	b, _ := json.Marshal(tr)
	tmp.Write(b)
	tmp.Close()
	per := map[int][]props.SubResult{}
	for _, l := range levels {
		bin, env := binAndEnvForLevel(l)
		cmd := exec.Command(bin, "digest", tmp.Name())
		cmd.Env = append(env, "FGSIM_EXPLAIN=1")
		var buf bytes.Buffer
		cmd.Stdout = &buf
		if err := runWithTimeout(cmd, 10*time.Minute); err != nil {
			feat["explanation"] = fmt.Sprintf("level %d: %v", l, err)
			feat["crash"] = "true"
			return feat
		}
		for _, line := range strings.Split(buf.String(), "\n") {
			if strings.HasPrefix(line, "SUBS ") {
				var subs []props.SubResult
				json.Unmarshal([]byte(line[5:]), &subs)
				per[l] = subs
			}
		}
	}
	base := per[levels[0]]
	kindsEqual, bothPrefix, lenLE2, inputTrunc, ndiff := true, true, true, true, 0
	example := ""
	for _, l := range levels[1:] {
		subs := per[l]
		if len(subs) != len(base) {
			kindsEqual = false
			continue
		}
		for i := range subs {
			x, y := base[i], subs[i]
			if x.Digest == y.Digest {
				continue
			}
			ndiff++
			if x.Kind != y.Kind {
				kindsEqual = false
			}
			if !x.RefPrefix || !y.RefPrefix {
				bothPrefix = false
			}
			d := x.OutLen - y.OutLen
			if d < 0 {
				d = -d
			}
			if d > 2 {
				lenLE2 = false
			}
			if !x.RefTrunc {
				inputTrunc = false
			}
			if example == "" {
				example = fmt.Sprintf("e.g. sub-run k=%d: level %d gives %d bytes then %s, level %d gives %d bytes then %s", x.K, levels[0], x.OutLen, x.Kind, l, y.OutLen, y.Kind)
			}
		}
	}
	if ndiff == 0 {
		return feat
	}
	feat["kinds_equal"] = fmt.Sprint(kindsEqual)
	feat["both_prefix_of_reference"] = fmt.Sprint(bothPrefix)
	feat["length_diff_le_2"] = fmt.Sprint(lenLE2)
	feat["input_truncated"] = fmt.Sprint(inputTrunc)
	feat["explanation"] = fmt.Sprintf("%d differing sub-run(s); %s", ndiff, example)
	return feat
}
