module fgverif

go 1.21

require github.com/intel/fastgo v0.0.0

replace github.com/intel/fastgo => /repo
