package ref

import (
	"bytes"
	"compress/flate"
	"io"
	"math/rand"
	"testing"
)

func stdInflate(in []byte) ([]byte, error, int) {
	br := bytes.NewReader(in)
	r := flate.NewReader(br)
	out, err := io.ReadAll(r)
	return out, err, len(in) - br.Len()
}

func TestAgainstStdlibEncoders(t *testing.T) {
	rng := rand.New(rand.NewSource(1))
	for i := 0; i < 300; i++ {
		n := rng.Intn(100000)
		data := make([]byte, n)
		switch i % 3 {
		case 0:
			rng.Read(data)
		case 1:
			for j := range data {
				data[j] = byte(rng.Intn(4))
			}
		case 2:
			for j := range data {
				if j > 100 && rng.Intn(3) > 0 {
					data[j] = data[j-1-rng.Intn(100)]
				} else {
					data[j] = byte(rng.Intn(256))
				}
			}
		}
		var buf bytes.Buffer
		lv := []int{-2, -1, 0, 1, 5, 9}[i%6]
		w, _ := flate.NewWriter(&buf, lv)
		w.Write(data[:n/2])
		if i%2 == 0 {
			w.Flush()
		}
		w.Write(data[n/2:])
		w.Close()
		r := Inflate(buf.Bytes(), Options{})
		if !r.Complete || !bytes.Equal(r.Out, data) || r.EndByte != buf.Len() {
			t.Fatalf("case %d: complete=%v defect=%v len %d/%d end %d/%d", i, r.Complete, r.Defect, len(r.Out), n, r.EndByte, buf.Len())
		}
		// every truncation of a small stream is "truncated" with a prefix
		if buf.Len() < 3000 {
			for k := 0; k < buf.Len(); k++ {
				rr := Inflate(buf.Bytes()[:k], Options{})
				if !rr.Truncated || rr.Defect != nil || !bytes.HasPrefix(data, rr.Out) {
					t.Fatalf("case %d trunc %d: %+v", i, k, rr.Defect)
				}
			}
		}
	}
}

func TestSynthValid(t *testing.T) {
	rng := rand.New(rand.NewSource(2))
	acc := 0
	for i := 0; i < 3000; i++ {
		p := SynthParams{OutLen: 1 + rng.Intn(20000), MaxBlocks: 1 + rng.Intn(8), Alphabet: 1 + rng.Intn(256), MatchPct: rng.Intn(90), FarPct: rng.Intn(50),
			Shape: rng.Intn(4), EmptyPct: rng.Intn(40), SyncPct: rng.Intn(40)}
		s := Synthesize(rng, p)
		r := Inflate(s.Stream, Options{})
		if !r.Complete || !bytes.Equal(r.Out, s.Out) {
			t.Fatalf("case %d: ref does not decode synth stream: complete=%v defect=%v trunc=%v out %d/%d params %+v", i, r.Complete, r.Defect, r.Truncated, len(r.Out), len(s.Out), p)
		}
		out, err, used := stdInflate(s.Stream)
		if err != nil {
			t.Fatalf("case %d: stdlib rejects synth stream: %v params %+v", i, err, p)
		}
		if !bytes.Equal(out, s.Out) || used != r.EndByte {
			t.Fatalf("case %d: stdlib output differs (used %d end %d)", i, used, r.EndByte)
		}
		acc++
	}
	t.Logf("%d valid synthesised streams", acc)
}

func TestSynthFaults(t *testing.T) {
	rng := rand.New(rand.NewSource(3))
	kinds := map[string]int{}
	planted := map[string]int{}
	for i := 0; i < 6000; i++ {
		f := AllFaults[i%len(AllFaults)]
		p := SynthParams{OutLen: 1 + rng.Intn(5000), MaxBlocks: 1 + rng.Intn(5), Alphabet: 1 + rng.Intn(256), MatchPct: rng.Intn(90), FarPct: rng.Intn(50),
			Shape: rng.Intn(4), EmptyPct: rng.Intn(20), Fault: f, FaultBlock: rng.Intn(5), TailGarbage: rng.Intn(2) * 600}
		s := Synthesize(rng, p)
		r := Inflate(s.Stream, Options{})
		_, err, _ := stdInflate(s.Stream)
		if err == nil {
			// stdlib accepts => ref must accept identically
			if !r.Complete {
				t.Fatalf("case %d fault %s: stdlib accepts, ref does not: %v", i, f, r.Defect)
			}
			kinds[f+":accepted"]++
			continue
		}
		if s.FaultPlanted {
			planted[f]++
		}
		if r.Defect != nil {
			kinds[f+":"+r.Defect.Kind]++
		} else if r.Truncated {
			kinds[f+":truncated"]++
		} else {
			kinds[f+":ref_accepts_std_rejects"]++
		}
	}
	for k, v := range kinds {
		t.Logf("%-60s %d", k, v)
	}
	t.Logf("planted: %v", planted)
}

func TestRandomBytesAgree(t *testing.T) {
	rng := rand.New(rand.NewSource(4))
	for i := 0; i < 20000; i++ {
		b := make([]byte, rng.Intn(64))
		rng.Read(b)
		if rng.Intn(2) == 0 && len(b) > 0 {
			b[0] = b[0]&^6 | 2 // fixed block
		}
		out, err, _ := stdInflate(b)
		r := Inflate(b, Options{MaxOut: 1 << 20})
		if err == nil {
			if !r.Complete || !bytes.Equal(out, r.Out) {
				t.Fatalf("stdlib accepts %x, ref: %+v", b, r.Defect)
			}
		} else if !r.TooBig {
			// stdlib's output must be a prefix of the maximal reference output
			if !bytes.HasPrefix(r.Out, out) {
				t.Fatalf("stdlib out not prefix of ref out for %x", b)
			}
		}
	}
}
