// Package ref holds the reference models used as oracles: a bit-at-a-time,
// RFC-1951-literal, maximal inflater written for clarity (shares no tables or
// code with fastgo or compress/flate), a stream synthesiser and container
// parsers built on it.
package ref

import "fmt"

// Defect classes, see DESIGN §5 C03.
const (
	DefReservedType   = "reserved_block_type"
	DefStoredLen      = "stored_len_mismatch"
	DefOversubscribed = "oversubscribed_code"
	DefRepeatNoPrev   = "repeat_without_previous"
	DefRunPast        = "run_past_declared_count"
	DefUnassigned     = "unassigned_code_used"
	DefBadLitLenSym   = "invalid_length_symbol"
	DefBadDistSym     = "invalid_distance_symbol"
	DefDistTooFar     = "distance_beyond_output"
	DefWindow         = "distance_beyond_window" // only in restricted-window mode
)

type Defect struct {
	Kind string
	// Bit is a position (in bits from the start of the input) by which the
	// defect is certain for any decoder.
	Bit   int64
	Block int
}

func (d *Defect) String() string {
	return fmt.Sprintf("%s@bit%d(block %d)", d.Kind, d.Bit, d.Block)
}

type Block struct {
	Type         int
	Final        bool
	StartBit     int64
	HdrEndBit    int64 // first bit after the block header (incl. code tables / LEN,NLEN)
	EndBit       int64 // first bit after the block; 0 if the block did not finish
	OutStart     int
	OutEnd       int
	MaxCodeLit   int // longest literal/length code (dynamic blocks)
	MaxCodeDist  int
	NumDistCodes int
	Incomplete   bool // some code of this block is incomplete (legal per RFC while unused)
	NoEOB        bool // end-of-block has no code
	HLIT, HDIST  int
}

type Options struct {
	Dict   []byte
	MaxOut int // 0 = 256 MiB
	Window int // 0 = unrestricted (format limit 32768 applies by construction)
}

type Result struct {
	Out          []byte
	Complete     bool  // the final block ended
	EndBit       int64 // bit after the final block (Complete only)
	EndByte      int   // bytes of input that belong to the stream (Complete only)
	Truncated    bool  // ran out of input before the stream ended
	StopBit      int64 // start of the first symbol that could not be decoded completely
	Defect       *Defect
	TooBig       bool
	Blocks       []Block
	MaxDist      int
	Matches      int
	LongestMatch int
	// SyncPoints are byte offsets just after an empty non-final stored block.
	SyncPoints []int
	// OutAtSync[i] is the output length at SyncPoints[i].
	OutAtSync []int
}

// Lazy reports whether the stream contains something a strict decoder may
// reject that the RFC does not forbid outright (incomplete code, missing EOB
// code, HLIT/HDIST beyond 286/30).
func (r *Result) Lazy() bool {
	for _, b := range r.Blocks {
		if b.Incomplete || b.NoEOB || b.HLIT > 286 || b.HDIST > 30 {
			return true
		}
	}
	return false
}

type bitReader struct {
	in  []byte
	pos int64 // bit position
}

func (b *bitReader) avail() int64 { return int64(len(b.in))*8 - b.pos }

func (b *bitReader) bit() int {
	v := int(b.in[b.pos>>3]>>(uint(b.pos)&7)) & 1
	b.pos++
	return v
}

// bits reads n bits LSB first; ok=false (nothing consumed) if not available.
func (b *bitReader) bits(n int) (int, bool) {
	if b.avail() < int64(n) {
		return 0, false
	}
	v := 0
	for i := 0; i < n; i++ {
		v |= b.bit() << uint(i)
	}
	return v, true
}

type code struct {
	count  [16]int
	symbol []int
	n      int // number of symbols with non-zero length
	maxLen int
	left   int // unused code space in units of 2^-15; <0 = over-subscribed
}

func buildCode(lengths []int) *code {
	c := &code{}
	for _, l := range lengths {
		c.count[l]++
	}
	c.count[0] = 0
	left := 1 << 15
	for l := 1; l <= 15; l++ {
		left -= c.count[l] << uint(15-l)
		if c.count[l] > 0 {
			c.maxLen = l
		}
		c.n += c.count[l]
	}
	c.left = left
	var offs [17]int
	for l := 1; l <= 15; l++ {
		offs[l+1] = offs[l] + c.count[l]
	}
	c.symbol = make([]int, c.n)
	for s, l := range lengths {
		if l != 0 {
			c.symbol[offs[l]] = s
			offs[l]++
		}
	}
	return c
}

const (
	decOK = iota
	decTrunc
	decUnassigned
)

// decode reads one symbol. On decTrunc nothing is consumed.
func (c *code) decode(b *bitReader) (sym int, st int) {
	start := b.pos
	cd, first, index := 0, 0, 0
	for l := 1; l <= 15; l++ {
		if b.avail() < 1 {
			b.pos = start
			return 0, decTrunc
		}
		cd |= b.bit()
		cnt := c.count[l]
		if cd-cnt < first {
			return c.symbol[index+(cd-first)], decOK
		}
		index += cnt
		first += cnt
		first <<= 1
		cd <<= 1
		if l >= c.maxLen {
			// no longer code exists: the prefix read so far is unassigned
			return 0, decUnassigned
		}
	}
	return 0, decUnassigned
}

var lenBase = [29]int{3, 4, 5, 6, 7, 8, 9, 10, 11, 13, 15, 17, 19, 23, 27, 31, 35, 43, 51, 59, 67, 83, 99, 115, 131, 163, 195, 227, 258}
var lenExtra = [29]int{0, 0, 0, 0, 0, 0, 0, 0, 1, 1, 1, 1, 2, 2, 2, 2, 3, 3, 3, 3, 4, 4, 4, 4, 5, 5, 5, 5, 0}
var distBase = [30]int{1, 2, 3, 4, 5, 7, 9, 13, 17, 25, 33, 49, 65, 97, 129, 193, 257, 385, 513, 769, 1025, 1537, 2049, 3073, 4097, 6145, 8193, 12289, 16385, 24577}
var distExtra = [30]int{0, 0, 0, 0, 1, 1, 2, 2, 3, 3, 4, 4, 5, 5, 6, 6, 7, 7, 8, 8, 9, 9, 10, 10, 11, 11, 12, 12, 13, 13}
var clOrder = [19]int{16, 17, 18, 0, 8, 7, 9, 6, 10, 5, 11, 4, 12, 3, 13, 2, 14, 1, 15}

var fixedLit, fixedDist *code

func init() {
	l := make([]int, 288)
	for i := 0; i < 144; i++ {
		l[i] = 8
	}
	for i := 144; i < 256; i++ {
		l[i] = 9
	}
	for i := 256; i < 280; i++ {
		l[i] = 7
	}
	for i := 280; i < 288; i++ {
		l[i] = 8
	}
	fixedLit = buildCode(l)
	d := make([]int, 32)
	for i := range d {
		d[i] = 5
	}
	fixedDist = buildCode(d)
}

// Inflate decodes in as far as possible.
func Inflate(in []byte, opt Options) *Result {
	r := &Result{}
	maxOut := opt.MaxOut
	if maxOut == 0 {
		maxOut = 256 << 20
	}
	b := &bitReader{in: in}
	dictLen := len(opt.Dict)
	hist := func(i int) byte { // i may be negative: index into dict
		if i >= 0 {
			return r.Out[i]
		}
		return opt.Dict[dictLen+i]
	}
	fail := func(kind string, blk int) {
		r.Defect = &Defect{Kind: kind, Bit: b.pos, Block: blk}
	}
	for {
		blk := len(r.Blocks)
		start := b.pos
		hdr, ok := b.bits(3)
		if !ok {
			r.Truncated, r.StopBit = true, start
			return r
		}
		bl := Block{Final: hdr&1 == 1, Type: hdr >> 1, StartBit: start, OutStart: len(r.Out)}
		r.Blocks = append(r.Blocks, bl)
		cur := &r.Blocks[blk]
		switch bl.Type {
		case 3:
			fail(DefReservedType, blk)
			return r
		case 0:
			// skip to byte boundary
			b.pos = (b.pos + 7) &^ 7
			if b.avail() < 32 {
				r.Truncated, r.StopBit = true, start
				b.pos = start
				return r
			}
			ln, _ := b.bits(16)
			nln, _ := b.bits(16)
			if ln != (^nln)&0xffff {
				fail(DefStoredLen, blk)
				return r
			}
			cur.HdrEndBit = b.pos
			p := int(b.pos >> 3)
			n := ln
			trunc := false
			if len(in)-p < n {
				n = len(in) - p
				trunc = true
			}
			if len(r.Out)+n > maxOut {
				r.TooBig = true
				return r
			}
			r.Out = append(r.Out, in[p:p+n]...)
			b.pos += int64(n) * 8
			cur.OutEnd = len(r.Out)
			if trunc {
				r.Truncated, r.StopBit = true, b.pos
				return r
			}
			cur.EndBit = b.pos
			if ln == 0 && !bl.Final {
				r.SyncPoints = append(r.SyncPoints, int(b.pos>>3))
				r.OutAtSync = append(r.OutAtSync, len(r.Out))
			}
		case 1, 2:
			var lc, dc *code
			if bl.Type == 1 {
				lc, dc = fixedLit, fixedDist
				cur.HdrEndBit = b.pos
				cur.HLIT, cur.HDIST = 288, 30
			} else {
				var st int
				lc, dc, st = readDynamic(b, r, blk, cur)
				if st == decTrunc {
					r.Truncated, r.StopBit = true, start
					b.pos = start
					return r
				}
				if r.Defect != nil {
					return r
				}
				cur.HdrEndBit = b.pos
			}
			for {
				symStart := b.pos
				sym, st := lc.decode(b)
				if st == decTrunc {
					r.Truncated, r.StopBit = true, symStart
					cur.OutEnd = len(r.Out)
					return r
				}
				if st == decUnassigned {
					fail(DefUnassigned, blk)
					cur.OutEnd = len(r.Out)
					return r
				}
				if sym < 256 {
					if len(r.Out)+1 > maxOut {
						r.TooBig = true
						return r
					}
					r.Out = append(r.Out, byte(sym))
					continue
				}
				if sym == 256 {
					break
				}
				if sym > 285 {
					fail(DefBadLitLenSym, blk)
					cur.OutEnd = len(r.Out)
					return r
				}
				sym -= 257
				eb, ok := b.bits(lenExtra[sym])
				if !ok {
					b.pos = symStart
					r.Truncated, r.StopBit = true, symStart
					cur.OutEnd = len(r.Out)
					return r
				}
				length := lenBase[sym] + eb
				ds, st := dc.decode(b)
				if st == decTrunc {
					b.pos = symStart
					r.Truncated, r.StopBit = true, symStart
					cur.OutEnd = len(r.Out)
					return r
				}
				if st == decUnassigned {
					fail(DefUnassigned, blk)
					cur.OutEnd = len(r.Out)
					return r
				}
				if ds > 29 {
					fail(DefBadDistSym, blk)
					cur.OutEnd = len(r.Out)
					return r
				}
				de, ok := b.bits(distExtra[ds])
				if !ok {
					b.pos = symStart
					r.Truncated, r.StopBit = true, symStart
					cur.OutEnd = len(r.Out)
					return r
				}
				dist := distBase[ds] + de
				if dist > len(r.Out)+dictLen {
					fail(DefDistTooFar, blk)
					cur.OutEnd = len(r.Out)
					return r
				}
				if opt.Window != 0 && dist > opt.Window {
					fail(DefWindow, blk)
					cur.OutEnd = len(r.Out)
					return r
				}
				if len(r.Out)+length > maxOut {
					r.TooBig = true
					return r
				}
				if dist > r.MaxDist {
					r.MaxDist = dist
				}
				r.Matches++
				if length > r.LongestMatch {
					r.LongestMatch = length
				}
				base := len(r.Out) - dist
				for i := 0; i < length; i++ {
					r.Out = append(r.Out, hist(base+i))
				}
			}
			cur.OutEnd = len(r.Out)
			cur.EndBit = b.pos
		}
		if bl.Final {
			r.Complete = true
			r.EndBit = b.pos
			r.EndByte = int((b.pos + 7) >> 3)
			return r
		}
	}
}

func readDynamic(b *bitReader, r *Result, blk int, cur *Block) (lc, dc *code, st int) {
	fail := func(kind string) {
		r.Defect = &Defect{Kind: kind, Bit: b.pos, Block: blk}
	}
	if b.avail() < 14 {
		return nil, nil, decTrunc
	}
	hlit, _ := b.bits(5)
	hdist, _ := b.bits(5)
	hclen, _ := b.bits(4)
	nlen, ndist, ncode := hlit+257, hdist+1, hclen+4
	cur.HLIT, cur.HDIST = nlen, ndist
	if b.avail() < int64(3*ncode) {
		return nil, nil, decTrunc
	}
	var cl [19]int
	for i := 0; i < ncode; i++ {
		cl[clOrder[i]], _ = b.bits(3)
	}
	clc := buildCode(cl[:])
	if clc.left < 0 {
		fail(DefOversubscribed)
		return nil, nil, decOK
	}
	if clc.left > 0 {
		cur.Incomplete = true
	}
	lengths := make([]int, nlen+ndist)
	i := 0
	for i < nlen+ndist {
		sym, st := clc.decode(b)
		if st == decTrunc {
			return nil, nil, decTrunc
		}
		if st == decUnassigned {
			fail(DefUnassigned)
			return nil, nil, decOK
		}
		if sym < 16 {
			lengths[i] = sym
			i++
			continue
		}
		var rep, val int
		switch sym {
		case 16:
			if i == 0 {
				fail(DefRepeatNoPrev)
				return nil, nil, decOK
			}
			val = lengths[i-1]
			e, ok := b.bits(2)
			if !ok {
				return nil, nil, decTrunc
			}
			rep = 3 + e
		case 17:
			e, ok := b.bits(3)
			if !ok {
				return nil, nil, decTrunc
			}
			rep = 3 + e
		case 18:
			e, ok := b.bits(7)
			if !ok {
				return nil, nil, decTrunc
			}
			rep = 11 + e
		}
		if i+rep > nlen+ndist {
			fail(DefRunPast)
			return nil, nil, decOK
		}
		for ; rep > 0; rep-- {
			lengths[i] = val
			i++
		}
	}
	lc = buildCode(lengths[:nlen])
	dc = buildCode(lengths[nlen:])
	if lc.left < 0 || dc.left < 0 {
		fail(DefOversubscribed)
		return nil, nil, decOK
	}
	if lc.left > 0 || (dc.left > 0) {
		// An incomplete code is legal as long as no unassigned code is used.
		// A distance code with zero or one symbol is the usual legal case.
		cur.Incomplete = true
	}
	if lengths[256] == 0 {
		cur.NoEOB = true
	}
	cur.MaxCodeLit, cur.MaxCodeDist, cur.NumDistCodes = lc.maxLen, dc.maxLen, dc.n
	return lc, dc, decOK
}
