package ref

import "sort"

// BitWriter writes DEFLATE bit order (LSB first; Huffman codes MSB first).
type BitWriter struct {
	Buf  []byte
	nbit uint
}

func (w *BitWriter) Pos() int64 {
	if w.nbit == 0 {
		return int64(len(w.Buf)) * 8
	}
	return int64(len(w.Buf)-1)*8 + int64(w.nbit)
}

func (w *BitWriter) Bit(b int) {
	if w.nbit == 0 {
		w.Buf = append(w.Buf, 0)
	}
	w.Buf[len(w.Buf)-1] |= byte(b&1) << w.nbit
	w.nbit = (w.nbit + 1) & 7
}

func (w *BitWriter) Bits(v, n int) {
	for i := 0; i < n; i++ {
		w.Bit(v >> uint(i))
	}
}

// Code writes a Huffman code of length n, most significant bit first.
func (w *BitWriter) Code(c, n int) {
	for i := n - 1; i >= 0; i-- {
		w.Bit(c >> uint(i))
	}
}

func (w *BitWriter) Align() {
	w.nbit = 0
}

// CanonCodes returns canonical codes for the given lengths.
func CanonCodes(lengths []int) []int {
	var count [17]int
	for _, l := range lengths {
		count[l]++
	}
	count[0] = 0
	var next [17]int
	c := 0
	for l := 1; l <= 16; l++ {
		c = (c + count[l-1]) << 1
		next[l] = c
	}
	codes := make([]int, len(lengths))
	for s, l := range lengths {
		if l != 0 {
			codes[s] = next[l]
			next[l]++
		}
	}
	return codes
}

// Rand is the subset of the PRNG the synthesiser needs.
type Rand interface {
	Intn(n int) int
}

// Tok is an LZ77 token: Len==0 → literal Lit, else a copy.
type Tok struct {
	Lit  byte
	Len  int
	Dist int
}

// Fault kinds the synthesiser can plant (C03's list).
const (
	FaultNone          = ""
	FaultDistTooFar    = "dist_too_far"
	FaultUnassigned    = "unassigned_code"
	FaultOversub       = "oversubscribed"
	FaultNoEOB         = "no_eob"
	FaultRepeatFirst   = "repeat_first"
	FaultRunPast       = "run_past"
	FaultStoredLen     = "stored_len"
	FaultReservedType  = "reserved_type"
	FaultBadLenSym     = "bad_len_sym"
	FaultBadDistSym    = "bad_dist_sym"
	FaultNoDistButUsed = "no_dist_code_but_match"
	FaultOversubCL     = "oversubscribed_clcode"
	FaultOversubDist   = "oversubscribed_dist"
)

var AllFaults = []string{FaultDistTooFar, FaultUnassigned, FaultOversub, FaultNoEOB, FaultRepeatFirst, FaultRunPast,
	FaultStoredLen, FaultReservedType, FaultBadLenSym, FaultBadDistSym, FaultNoDistButUsed, FaultOversubCL, FaultOversubDist}

// SynthParams steer the block synthesiser. Everything is drawn from Rand in a
// fixed order, so (params, rng state) determine the stream.
type SynthParams struct {
	OutLen      int    // approximate decompressed size
	MaxBlocks   int    // upper bound on number of blocks
	Alphabet    int    // number of distinct literal values (1..256)
	MatchPct    int    // percentage of tokens that are matches
	FarPct      int    // of matches: percentage using long distances (window edge)
	TypeWeights [3]int // stored, fixed, dynamic
	Shape       int    // 0 huffman-ish, 1 random complete tree, 2 deep skewed tree, 3 flat
	EmptyPct    int    // percentage of additional empty blocks
	SyncPct     int    // percentage chance of a sync marker (empty stored) after a block
	Incomplete  bool   // allow legal incomplete codes (one-code or zero-code distance trees)
	Fault       string // fault to plant
	FaultBlock  int    // index of the block that gets the fault (clamped)
	TailGarbage int    // bytes of filler appended after the fault / stream
	Dict        []byte
	// AimOut > 0: the first block produces exactly AimOut+AimOff bytes and is
	// followed by a tiny literal-only dynamic block, so that block ends fall
	// right around a chosen output offset (the decoder's history wrap points).
	AimOut int
	AimOff int
}

type Synth struct {
	Stream       []byte
	Out          []byte // ground truth output (up to the fault when one is planted)
	Blocks       int
	FaultPlanted bool
	FaultBit     int64
}

func log2ceil(n int) int {
	l := 0
	for (1 << uint(l)) < n {
		l++
	}
	return l
}

// randomTreeLengths returns n code lengths of a complete prefix code with
// maximum depth maxDepth. mode 1: random splits; 2: always split a deepest
// leaf (skewed, reaches maxDepth); 3: as flat as possible.
func randomTreeLengths(rng Rand, n, maxDepth, mode int) []int {
	if n == 1 {
		return []int{1}
	}
	leaves := []int{1, 1}
	for len(leaves) < n {
		var idx int
		switch mode {
		case 2:
			// deepest leaf that can still be split, else any splittable
			idx = -1
			for i, d := range leaves {
				if d < maxDepth && (idx < 0 || d > leaves[idx]) {
					idx = i
				}
			}
		case 3:
			idx = -1
			for i, d := range leaves {
				if d < maxDepth && (idx < 0 || d < leaves[idx]) {
					idx = i
				}
			}
		default:
			// random splittable leaf
			cand := 0
			for _, d := range leaves {
				if d < maxDepth {
					cand++
				}
			}
			k := rng.Intn(cand)
			for i, d := range leaves {
				if d < maxDepth {
					if k == 0 {
						idx = i
						break
					}
					k--
				}
			}
		}
		d := leaves[idx] + 1
		leaves[idx] = d
		leaves = append(leaves, d)
	}
	return leaves
}

// assignLengths gives each used symbol (freq>0) a code length.
func assignLengths(rng Rand, freq []int, maxDepth, shape int) []int {
	type sf struct{ s, f int }
	var used []sf
	for s, f := range freq {
		if f > 0 {
			used = append(used, sf{s, f})
		}
	}
	out := make([]int, len(freq))
	if len(used) == 0 {
		return out
	}
	var ls []int
	switch shape {
	case 0:
		fr := make([]int, len(used))
		for i := range used {
			fr[i] = used[i].f
		}
		ls = huffLengths(fr, maxDepth)
		for i, u := range used {
			out[u.s] = ls[i]
		}
		return out
	default:
		ls = randomTreeLengths(rng, len(used), maxDepth, shape)
	}
	sort.Ints(ls)
	// frequent symbols get short codes, with some random swaps so that the
	// assignment is not always monotone
	sort.SliceStable(used, func(i, j int) bool { return used[i].f > used[j].f })
	for i := range used {
		if rng.Intn(8) == 0 {
			j := rng.Intn(len(used))
			used[i], used[j] = used[j], used[i]
		}
	}
	for i, u := range used {
		out[u.s] = ls[i]
	}
	return out
}

// huffLengths: plain Huffman lengths, then flattened until depth <= max using
// the Kraft sum (simple, not optimal, always complete for n>=2).
func huffLengths(freq []int, maxDepth int) []int {
	n := len(freq)
	if n == 1 {
		return []int{1}
	}
	type node struct{ f, l, r int }
	nodes := make([]node, 0, 2*n)
	var live []int
	for i, f := range freq {
		nodes = append(nodes, node{f, -1, -1})
		live = append(live, i)
	}
	for len(live) > 1 {
		sort.SliceStable(live, func(i, j int) bool { return nodes[live[i]].f < nodes[live[j]].f })
		a, b := live[0], live[1]
		nodes = append(nodes, node{nodes[a].f + nodes[b].f, a, b})
		live = append([]int{len(nodes) - 1}, live[2:]...)
	}
	ls := make([]int, n)
	var walk func(i, d int)
	walk = func(i, d int) {
		if nodes[i].l < 0 {
			ls[i] = d
			return
		}
		walk(nodes[i].l, d+1)
		walk(nodes[i].r, d+1)
	}
	walk(live[0], 0)
	// limit depth
	over := false
	for i := range ls {
		if ls[i] > maxDepth {
			ls[i] = maxDepth
			over = true
		}
	}
	if over {
		kraft := func() int {
			k := 0
			for _, l := range ls {
				k += 1 << uint(maxDepth-l)
			}
			return k
		}
		// lengthen the shortest-but-lengthenable codes until the Kraft sum fits
		for kraft() > 1<<uint(maxDepth) {
			best := -1
			for i, l := range ls {
				if l < maxDepth && (best < 0 || l > ls[best]) {
					best = i
				}
			}
			ls[best]++
		}
		// then shorten where possible to make it complete again
		for {
			k := kraft()
			if k == 1<<uint(maxDepth) {
				break
			}
			done := true
			for i, l := range ls {
				if l > 1 && k+(1<<uint(maxDepth-l)) <= 1<<uint(maxDepth) {
					ls[i]--
					done = false
					break
				}
			}
			if done {
				break
			}
		}
	}
	return ls
}

func lenSym(length int) (sym, extraBits, extra int) {
	for s := 28; s >= 0; s-- {
		if length >= lenBase[s] {
			if s == 28 || length < lenBase[s]+(1<<uint(lenExtra[s])) {
				return 257 + s, lenExtra[s], length - lenBase[s]
			}
		}
	}
	panic("bad length")
}

func distSym(dist int) (sym, extraBits, extra int) {
	for s := 29; s >= 0; s-- {
		if dist >= distBase[s] {
			return s, distExtra[s], dist - distBase[s]
		}
	}
	panic("bad dist")
}

// Synthesize builds a DEFLATE stream block by block.
func Synthesize(rng Rand, p SynthParams) *Synth {
	s := &Synth{}
	w := &BitWriter{}
	out := append([]byte(nil), p.Dict...)
	base := len(out)
	if p.Alphabet < 1 {
		p.Alphabet = 256
	}
	if p.MaxBlocks < 1 {
		p.MaxBlocks = 1
	}
	alpha := make([]byte, p.Alphabet)
	for i := range alpha {
		alpha[i] = byte(rng.Intn(256))
	}
	nblocks := 1 + rng.Intn(p.MaxBlocks)
	perBlock := p.OutLen / nblocks
	tw := p.TypeWeights
	if tw[0]+tw[1]+tw[2] == 0 {
		tw = [3]int{1, 1, 2}
	}
	pickType := func() int {
		k := rng.Intn(tw[0] + tw[1] + tw[2])
		if k < tw[0] {
			return 0
		}
		if k < tw[0]+tw[1] {
			return 1
		}
		return 2
	}
	faultBlock := p.FaultBlock
	if faultBlock >= nblocks {
		faultBlock = nblocks - 1
	}
	for bi := 0; bi < nblocks; bi++ {
		final := bi == nblocks-1
		fault := FaultNone
		if p.Fault != FaultNone && bi == faultBlock {
			fault = p.Fault
		}
		// optional extra empty blocks and sync markers before this block
		for p.EmptyPct > 0 && rng.Intn(100) < p.EmptyPct {
			switch rng.Intn(3) {
			case 0: // empty stored
				w.Bits(0, 3)
				w.Align()
				w.Bits(0, 16)
				w.Bits(0xffff, 16)
			case 1: // empty fixed
				w.Bits(0|1<<1, 3)
				w.Code(0, 7)
			default: // empty dynamic: only EOB, one-symbol literal code
				writeDynamic(rng, w, nil, 0, p.Shape, false, FaultNone, s)
			}
		}
		typ := pickType()
		switch fault {
		case FaultStoredLen:
			typ = 0
		case FaultBadLenSym, FaultBadDistSym:
			if typ == 0 {
				typ = 1
			}
		case FaultDistTooFar:
			if typ == 0 {
				typ = 1 + rng.Intn(2)
			}
		case FaultUnassigned, FaultOversub, FaultNoEOB, FaultRepeatFirst, FaultRunPast, FaultNoDistButUsed, FaultOversubCL, FaultOversubDist:
			typ = 2
		}
		if fault == FaultReservedType {
			w.Bits(btoi(final)|3<<1, 3)
			s.FaultPlanted, s.FaultBit = true, w.Pos()
			break
		}
		// tokens for this block
		target := perBlock/2 + rng.Intn(perBlock+1)
		exact := false
		if p.AimOut > 0 && fault == FaultNone {
			if bi == 0 && nblocks >= 3 {
				target, exact = p.AimOut+p.AimOff, true
				if target < 1 {
					target = 1
				}
				if typ == 0 {
					typ = 1 + rng.Intn(2)
				}
			} else if bi == 1 && nblocks >= 3 {
				target, exact, typ = 1+rng.Intn(4), true, 2
			}
		}
		if typ == 0 && target > 65535 {
			target = 65535
		}
		var toks []Tok
		produced := 0
		for produced < target {
			if typ != 0 && len(out) > 0 && rng.Intn(100) < p.MatchPct && !(exact && target-produced < 260) {
				maxd := len(out)
				if maxd > 32768 {
					maxd = 32768
				}
				var d int
				if rng.Intn(100) < p.FarPct {
					d = maxd - rng.Intn(min(maxd, 4))
				} else if rng.Intn(2) == 0 {
					d = 1 + rng.Intn(min(maxd, 16))
				} else {
					d = 1 + rng.Intn(maxd)
				}
				var l int
				switch rng.Intn(4) {
				case 0:
					l = 258 - rng.Intn(3)
				case 1:
					l = 3 + rng.Intn(8)
				default:
					l = 3 + rng.Intn(256)
				}
				toks = append(toks, Tok{Len: l, Dist: d})
				b0 := len(out) - d
				for i := 0; i < l; i++ {
					out = append(out, out[b0+i])
				}
				produced += l
			} else {
				c := alpha[rng.Intn(len(alpha))]
				toks = append(toks, Tok{Lit: c})
				out = append(out, c)
				produced++
			}
		}
		blockOutStart := len(out) - produced
		switch typ {
		case 0:
			w.Bits(btoi(final), 3)
			w.Align()
			n := produced
			w.Bits(n, 16)
			if fault == FaultStoredLen {
				w.Bits((^n&0xffff)^(1<<uint(rng.Intn(16))), 16)
				s.FaultPlanted, s.FaultBit = true, w.Pos()
				out = out[:blockOutStart]
			} else {
				w.Bits(^n&0xffff, 16)
			}
			w.Buf = append(w.Buf, out[blockOutStart:blockOutStart+produced]...)
		case 1:
			w.Bits(btoi(final)|1<<1, 3)
			lits := make([]int, 288)
			for i := 0; i < 144; i++ {
				lits[i] = 8
			}
			for i := 144; i < 256; i++ {
				lits[i] = 9
			}
			for i := 256; i < 280; i++ {
				lits[i] = 7
			}
			for i := 280; i < 288; i++ {
				lits[i] = 8
			}
			dl := make([]int, 32)
			for i := range dl {
				dl[i] = 5
			}
			n := emitTokens(rng, w, toks, lits, dl, fault, s, len(out)-produced-0, base)
			if s.FaultPlanted {
				out = truncateOut(out, blockOutStart, toks, n)
			}
		case 2:
			n := writeDynamic(rng, w, toks, len(out)-produced, p.Shape, final, fault, s)
			if p.Incomplete {
				_ = n
			}
			if s.FaultPlanted {
				out = truncateOut(out, blockOutStart, toks, n)
			}
		}
		s.Blocks++
		if s.FaultPlanted {
			break
		}
		if !final && p.SyncPct > 0 && rng.Intn(100) < p.SyncPct {
			w.Bits(0, 3)
			w.Align()
			w.Bits(0, 16)
			w.Bits(0xffff, 16)
		}
	}
	w.Align()
	for i := 0; i < p.TailGarbage; i++ {
		w.Buf = append(w.Buf, byte(rng.Intn(256)))
	}
	s.Stream = w.Buf
	s.Out = out[base:]
	return s
}

func truncateOut(out []byte, blockStart int, toks []Tok, n int) []byte {
	l := blockStart
	for i := 0; i < n && i < len(toks); i++ {
		if toks[i].Len == 0 {
			l++
		} else {
			l += toks[i].Len
		}
	}
	if l > len(out) {
		l = len(out)
	}
	return out[:l]
}

func btoi(b bool) int {
	if b {
		return 1
	}
	return 0
}

func min(a, b int) int {
	if a < b {
		return a
	}
	return b
}

// emitTokens writes tokens followed by EOB with the given code lengths. It
// returns the number of tokens that were written before a planted fault.
func emitTokens(rng Rand, w *BitWriter, toks []Tok, litLens, distLens []int, fault string, s *Synth, outBefore int, base int) int {
	lc := CanonCodes(litLens)
	dc := CanonCodes(distLens)
	faultAt := -1
	if fault == FaultDistTooFar || fault == FaultBadLenSym || fault == FaultBadDistSym || fault == FaultUnassigned || fault == FaultNoDistButUsed {
		faultAt = 0
		if len(toks) > 0 {
			faultAt = rng.Intn(len(toks) + 1)
		}
	}
	produced := outBefore
	for i, t := range toks {
		if i == faultAt {
			if plantTokenFault(rng, w, litLens, distLens, lc, dc, fault, produced, s) {
				return i
			}
		}
		if t.Len == 0 {
			w.Code(lc[t.Lit], litLens[t.Lit])
			produced++
			continue
		}
		ls, leb, le := lenSym(t.Len)
		w.Code(lc[ls], litLens[ls])
		w.Bits(le, leb)
		ds, deb, de := distSym(t.Dist)
		w.Code(dc[ds], distLens[ds])
		w.Bits(de, deb)
		produced += t.Len
	}
	if faultAt == len(toks) {
		if plantTokenFault(rng, w, litLens, distLens, lc, dc, fault, produced, s) {
			return len(toks)
		}
	}
	if litLens[256] != 0 {
		w.Code(lc[256], litLens[256])
	}
	return len(toks)
}

// firstUnassigned finds a bit string (code,len) that is not a prefix of / not
// prefixed by any assigned code, if the code is incomplete.
func firstUnassigned(lengths []int) (code, n int, ok bool) {
	var count [17]int
	maxl := 0
	for _, l := range lengths {
		count[l]++
		if l > maxl {
			maxl = l
		}
	}
	count[0] = 0
	if maxl == 0 {
		return 0, 1, true
	}
	// canonical: after assigning all codes of length maxl, the next code value
	// (if < 2^maxl) is unassigned.
	c := 0
	for l := 1; l <= maxl; l++ {
		c = (c + count[l-1]) << 1
	}
	c += count[maxl]
	if c < 1<<uint(maxl) {
		return c, maxl, true
	}
	return 0, 0, false
}

func plantTokenFault(rng Rand, w *BitWriter, litLens, distLens, lc, dc []int, fault string, produced int, s *Synth) bool {
	pickLen := func() int { // a length symbol that has a code
		for k := 0; k < 64; k++ {
			sym := 257 + rng.Intn(29)
			if sym < len(litLens) && litLens[sym] != 0 {
				return sym
			}
		}
		for sym := 257; sym < len(litLens) && sym < 286; sym++ {
			if litLens[sym] != 0 {
				return sym
			}
		}
		return -1
	}
	switch fault {
	case FaultDistTooFar:
		ls := pickLen()
		if ls < 0 {
			return false
		}
		// smallest distance symbol with a code whose range can exceed produced
		for ds := 0; ds < 30 && ds < len(distLens); ds++ {
			if distLens[ds] == 0 {
				continue
			}
			hi := distBase[ds] + (1 << uint(distExtra[ds])) - 1
			if hi > produced {
				want := produced + 1
				if want < distBase[ds] {
					want = distBase[ds]
				}
				// sometimes far beyond
				if rng.Intn(2) == 0 {
					want = hi
				}
				w.Code(lc[ls], litLens[ls])
				w.Bits(0, lenExtra[ls-257])
				w.Code(dc[ds], distLens[ds])
				w.Bits(want-distBase[ds], distExtra[ds])
				s.FaultPlanted, s.FaultBit = true, w.Pos()
				return true
			}
		}
		return false
	case FaultBadLenSym:
		sym := 286 + rng.Intn(2)
		if sym >= len(litLens) || litLens[sym] == 0 {
			return false
		}
		w.Code(lc[sym], litLens[sym])
		s.FaultPlanted, s.FaultBit = true, w.Pos()
		return true
	case FaultBadDistSym:
		ls := pickLen()
		sym := 30 + rng.Intn(2)
		if ls < 0 || sym >= len(distLens) || distLens[sym] == 0 {
			return false
		}
		w.Code(lc[ls], litLens[ls])
		w.Bits(0, lenExtra[ls-257])
		w.Code(dc[sym], distLens[sym])
		s.FaultPlanted, s.FaultBit = true, w.Pos()
		return true
	case FaultUnassigned:
		if rng.Intn(2) == 0 {
			if c, n, ok := firstUnassigned(litLens); ok {
				w.Code(c, n)
				s.FaultPlanted, s.FaultBit = true, w.Pos()
				return true
			}
		}
		if c, n, ok := firstUnassigned(distLens); ok {
			ls := pickLen()
			if ls < 0 {
				return false
			}
			w.Code(lc[ls], litLens[ls])
			w.Bits(0, lenExtra[ls-257])
			w.Code(c, n)
			s.FaultPlanted, s.FaultBit = true, w.Pos()
			return true
		}
		if c, n, ok := firstUnassigned(litLens); ok {
			w.Code(c, n)
			s.FaultPlanted, s.FaultBit = true, w.Pos()
			return true
		}
		return false
	case FaultNoDistButUsed:
		ls := pickLen()
		if ls < 0 {
			return false
		}
		w.Code(lc[ls], litLens[ls])
		w.Bits(0, lenExtra[ls-257])
		// whatever bits follow are read as a distance code that does not exist
		w.Bits(rng.Intn(1<<15), 15)
		s.FaultPlanted, s.FaultBit = true, w.Pos()
		return true
	}
	return false
}

// writeDynamic writes one dynamic block. Returns tokens written before a fault.
func writeDynamic(rng Rand, w *BitWriter, toks []Tok, outBefore int, shape int, final bool, fault string, s *Synth) int {
	litFreq := make([]int, 286)
	distFreq := make([]int, 30)
	litFreq[256] = 1
	for _, t := range toks {
		if t.Len == 0 {
			litFreq[t.Lit]++
		} else {
			ls, _, _ := lenSym(t.Len)
			litFreq[ls]++
			ds, _, _ := distSym(t.Dist)
			distFreq[ds]++
		}
	}
	nlen, ndist := 286, 30
	switch fault {
	case FaultBadLenSym:
		nlen = 288
		litFreq = append(litFreq, 1, 1)
	case FaultBadDistSym:
		ndist = 32
		distFreq = append(distFreq, 1, 1)
		litFreq[257+rng.Intn(29)]++
	case FaultDistTooFar:
		litFreq[257+rng.Intn(29)]++
		// a distance symbol that can exceed what has been produced
		for ds := 0; ds < 30; ds++ {
			if distBase[ds]+(1<<uint(distExtra[ds]))-1 > outBefore+tokensOut(toks) {
				distFreq[ds]++
				break
			}
		}
	case FaultNoDistButUsed:
		litFreq[257+rng.Intn(29)]++
		for i := range distFreq {
			distFreq[i] = 0
		}
		// matches cannot be encoded: turn the block into literals only
		var lt []Tok
		for _, t := range toks {
			if t.Len == 0 {
				lt = append(lt, t)
			}
		}
		// note: the output model is cut at the fault anyway; keep literals only
		// before the fault position by writing them first.
		toks = lt
	case FaultUnassigned:
		litFreq[257+rng.Intn(29)]++
	}
	litLens := assignLengths(rng, litFreq, 15, shape)
	distLens := assignLengths(rng, distFreq, 15, shape)
	// A distance code with a single symbol gets length 1 (legal incomplete
	// code); zero symbols → one zero length.
	switch fault {
	case FaultUnassigned:
		// make one of the codes incomplete by removing a symbol that is not used
		// by any token (the extra length symbol we counted, or lengthening).
		made := false
		for sym := 257; sym < 286 && !made; sym++ {
			if litLens[sym] != 0 && !tokUsesLitSym(toks, sym) && countNonZero(litLens) > 2 {
				litLens[sym] = 0
				made = true
			}
		}
		if !made {
			// lengthen one code: leaves a hole
			for sym := range litLens {
				if litLens[sym] != 0 && litLens[sym] < 15 {
					litLens[sym]++
					made = true
					break
				}
			}
		}
		// keep at least one length symbol for the distance variant
		if !hasLenSym(litLens) {
			litLens[257] = litLens[256]
			// this may oversubscribe; fall back to literal-code hole only
		}
	case FaultOversub:
		if rng.Intn(3) == 0 && addMaxLenCode(rng, litLens, 15) {
			break // minimal excess: one more code of the maximal length on top of a complete code
		}
		// shorten one code of length >= 2: Kraft sum exceeds 1
		for k := 0; k < 1000; k++ {
			sym := rng.Intn(len(litLens))
			if litLens[sym] >= 2 {
				litLens[sym]--
				break
			}
		}
	case FaultOversubDist:
		nz := countNonZero(distLens)
		if rng.Intn(3) == 0 {
			// heavily over-subscribed: several codes of length 1 or 2 (Kraft sum 2 and more)
			l := 1 + rng.Intn(2)
			k := []int{4, 6, 8, 16}[rng.Intn(4)]
			for i := 0; i < k && i < len(distLens); i++ {
				distLens[rng.Intn(min(len(distLens), 30))] = l
			}
			for i := 0; i < 4; i++ {
				distLens[i] = l
			}
		} else if nz >= 2 && rng.Intn(3) == 0 && addMaxLenCode(rng, distLens[:30], 15) {
			// minimal excess (2^-15): visible only in the count of 15-bit codes
		} else if nz >= 2 {
			for k := 0; k < 1000; k++ {
				sym := rng.Intn(len(distLens))
				if distLens[sym] >= 2 {
					distLens[sym]--
					break
				}
			}
		} else {
			distLens[0], distLens[1], distLens[2] = 1, 1, 1
		}
	case FaultNoEOB:
		litLens[256] = 0
	}
	// trim trailing zeros (HLIT/HDIST), sometimes keep them
	for nlen > 257 && litLens[nlen-1] == 0 && rng.Intn(8) != 0 {
		nlen--
	}
	for ndist > 1 && distLens[ndist-1] == 0 && rng.Intn(8) != 0 {
		ndist--
	}
	all := append(append([]int(nil), litLens[:nlen]...), distLens[:ndist]...)
	// RLE with random choices
	type rle struct{ sym, extra, ebits int }
	var seq []rle
	i := 0
	if fault == FaultRepeatFirst {
		seq = append(seq, rle{16, rng.Intn(4), 2})
		// decoder will fail here; what follows does not matter
	}
	crossRun := -1
	if fault == FaultRunPast && ndist <= 3 && rng.Intn(2) == 0 {
		// variant: a repeat-previous run that starts in the last literal/length
		// positions, crosses into the distance section and overshoots it
		k := rng.Intn(4)
		if nlen-k > 1 {
			crossRun = nlen - k
			all = all[:crossRun]
		}
	}
	for i < len(all) {
		v := all[i]
		run := 1
		for i+run < len(all) && all[i+run] == v {
			run++
		}
		if v == 0 && run >= 3 && rng.Intn(8) != 0 {
			if run >= 11 && rng.Intn(4) != 0 {
				r := min(run, 138)
				if rng.Intn(3) == 0 {
					r = 11 + rng.Intn(r-10)
				}
				seq = append(seq, rle{18, r - 11, 7})
				i += r
			} else {
				r := min(run, 10)
				if rng.Intn(3) == 0 {
					r = 3 + rng.Intn(r-2)
				}
				seq = append(seq, rle{17, r - 3, 3})
				i += r
			}
			continue
		}
		if i > 0 && all[i-1] == v && run >= 3 && rng.Intn(8) != 0 {
			r := min(run, 6)
			if rng.Intn(3) == 0 {
				r = 3 + rng.Intn(r-2)
			}
			seq = append(seq, rle{16, r - 3, 2})
			i += r
			continue
		}
		seq = append(seq, rle{v, 0, 0})
		i++
	}
	if crossRun >= 0 {
		need := nlen + ndist - crossRun // positions left; the run must exceed them
		rep := need + 1 + rng.Intn(3)
		if rep < 3 {
			rep = 3
		}
		if rep > 6 {
			rep = 6
		}
		seq = append(seq, rle{16, rep - 3, 2})
	} else if fault == FaultRunPast && len(seq) > 0 {
		// replace the last element by a run that starts inside the declared
		// count and overshoots it
		last := seq[len(seq)-1]
		k := 1
		switch last.sym {
		case 16, 17:
			k = 3 + last.extra
		case 18:
			k = 11 + last.extra
		}
		seq = seq[:len(seq)-1]
		var opts []rle
		if k+1 <= 138 {
			lo := k + 1
			if lo < 11 {
				lo = 11
			}
			opts = append(opts, rle{18, lo - 11 + rng.Intn(138-lo+1), 7})
		}
		if k+1 <= 10 {
			lo := k + 1
			if lo < 3 {
				lo = 3
			}
			opts = append(opts, rle{17, lo - 3 + rng.Intn(10-lo+1), 3})
		}
		if k+1 <= 6 && len(seq) > 0 {
			lo := k + 1
			if lo < 3 {
				lo = 3
			}
			opts = append(opts, rle{16, lo - 3 + rng.Intn(6-lo+1), 2})
		}
		if len(opts) == 0 {
			opts = append(opts, last, rle{18, 127, 7})
			seq = append(seq, opts...)
		} else {
			seq = append(seq, opts[rng.Intn(len(opts))])
		}
	}
	clFreq := make([]int, 19)
	for _, r := range seq {
		clFreq[r.sym]++
	}
	clShape := shape
	if clShape == 2 && rng.Intn(2) == 0 {
		clShape = 1
	}
	clLens := assignLengths(rng, clFreq, 7, clShape)
	if fault == FaultOversubCL && rng.Intn(3) == 0 {
		l := 1 + rng.Intn(2)
		for i := 0; i < 4+rng.Intn(12); i++ {
			clLens[rng.Intn(19)] = l
		}
		for i := 0; i < 4; i++ {
			clLens[i] = l
		}
	} else if fault == FaultOversubCL && rng.Intn(3) == 0 && addMaxLenCode(rng, clLens, 7) {
		// minimal excess (2^-7)
	} else if fault == FaultOversubCL {
		done := false
		for k := 0; k < 200 && !done; k++ {
			sym := rng.Intn(19)
			if clLens[sym] >= 2 {
				clLens[sym]--
				done = true
			}
		}
		if !done {
			clLens[0], clLens[1], clLens[2] = 1, 1, 1
		}
	}
	ncl := 19
	for ncl > 4 && clLens[clOrder[ncl-1]] == 0 && rng.Intn(8) != 0 {
		ncl--
	}
	w.Bits(btoi(final)|2<<1, 3)
	w.Bits(nlen-257, 5)
	w.Bits(ndist-1, 5)
	w.Bits(ncl-4, 4)
	for k := 0; k < ncl; k++ {
		w.Bits(clLens[clOrder[k]], 3)
	}
	clc := CanonCodes(clLens)
	for k, r := range seq {
		w.Code(clc[r.sym], clLens[r.sym])
		w.Bits(r.extra, r.ebits)
		if fault == FaultRepeatFirst && k == 0 {
			s.FaultPlanted, s.FaultBit = true, w.Pos()
		}
	}
	switch fault {
	case FaultRepeatFirst:
		return 0
	case FaultRunPast, FaultOversub, FaultOversubCL, FaultOversubDist:
		s.FaultPlanted, s.FaultBit = true, w.Pos()
		return 0
	}
	n := emitTokens(rng, w, toks, pad(litLens, 288), pad(distLens, 32), fault, s, outBefore, 0)
	if fault == FaultNoEOB {
		s.FaultPlanted, s.FaultBit = true, w.Pos()
	}
	return n
}

func tokensOut(toks []Tok) int {
	n := 0
	for _, t := range toks {
		if t.Len == 0 {
			n++
		} else {
			n += t.Len
		}
	}
	return n
}

func pad(a []int, n int) []int {
	for len(a) < n {
		a = append(a, 0)
	}
	return a
}

func countNonZero(a []int) int {
	n := 0
	for _, v := range a {
		if v != 0 {
			n++
		}
	}
	return n
}

func hasLenSym(l []int) bool {
	for s := 257; s < len(l) && s < 286; s++ {
		if l[s] != 0 {
			return true
		}
	}
	return false
}

func tokUsesLitSym(toks []Tok, sym int) bool {
	for _, t := range toks {
		if t.Len == 0 {
			if int(t.Lit) == sym {
				return true
			}
		} else if ls, _, _ := lenSym(t.Len); ls == sym {
			return true
		}
	}
	return false
}

// addMaxLenCode gives one unused symbol a code of the maximal length if (and
// only if) the lengths already form a complete code, so that the excess is a
// single code of that length. Reports whether it did.
func addMaxLenCode(rng Rand, lens []int, maxLen int) bool {
	kraft := 0
	var unused []int
	for i, l := range lens {
		if l == 0 {
			unused = append(unused, i)
		} else {
			kraft += 1 << uint(maxLen-l)
		}
	}
	if kraft != 1<<uint(maxLen) || len(unused) == 0 {
		return false
	}
	lens[unused[rng.Intn(len(unused))]] = maxLen
	return true
}
