package ref

import (
	"encoding/binary"
	"hash/adler32"
	"hash/crc32"
)

// GzipMember is what the reference parser found for one member.
type GzipMember struct {
	Start, HdrEnd, DeflateEnd, End int
	Name, Comment                  string // raw Latin-1 bytes as string
	Extra                          []byte
	HasExtra                       bool
	MTime                          uint32
	XFL, OS                        byte
	Flags                          byte
	Payload                        []byte
	CRC, ISize                     uint32
	CRCOK, SizeOK                  bool
	HeaderCRCOK                    bool
}

type GzipParse struct {
	Members []GzipMember
	// Status of the whole input
	OK        bool   // consisted of >=1 complete valid members and nothing else
	Truncated bool   // ran out of input inside a member
	Bad       string // first structural problem (header magic, deflate defect, checksum)
	Rest      int    // offset of the first byte not belonging to a valid member
	Partial   []byte // payload decoded from the member that did not complete
}

// ParseGzip parses members from in[off:]. It stops at the first problem.
func ParseGzip(in []byte) *GzipParse {
	p := &GzipParse{}
	off := 0
	for {
		if off == len(in) && len(p.Members) > 0 {
			p.OK = true
			p.Rest = off
			return p
		}
		p.Rest = off
		m := GzipMember{Start: off}
		b := in[off:]
		if len(b) < 10 {
			// a short header: truncated if it is a prefix of a plausible header
			p.Truncated = true
			for i := 0; i < len(b) && i < 3; i++ {
				if b[i] != []byte{0x1f, 0x8b, 8}[i] {
					p.Truncated = false
					p.Bad = "header"
				}
			}
			return p
		}
		if b[0] != 0x1f || b[1] != 0x8b || b[2] != 8 {
			p.Bad = "header"
			return p
		}
		m.Flags = b[3]
		m.MTime = binary.LittleEndian.Uint32(b[4:8])
		m.XFL, m.OS = b[8], b[9]
		pos := 10
		if m.Flags&4 != 0 {
			if len(b) < pos+2 {
				p.Truncated = true
				return p
			}
			n := int(binary.LittleEndian.Uint16(b[pos:]))
			pos += 2
			if len(b) < pos+n {
				p.Truncated = true
				return p
			}
			m.Extra = append([]byte(nil), b[pos:pos+n]...)
			m.HasExtra = true
			pos += n
		}
		readStr := func() (string, bool) {
			for i := pos; i < len(b); i++ {
				if b[i] == 0 {
					s := string(b[pos:i])
					pos = i + 1
					return s, true
				}
			}
			return "", false
		}
		if m.Flags&8 != 0 {
			s, ok := readStr()
			if !ok {
				p.Truncated = true
				return p
			}
			m.Name = s
		}
		if m.Flags&16 != 0 {
			s, ok := readStr()
			if !ok {
				p.Truncated = true
				return p
			}
			m.Comment = s
		}
		m.HeaderCRCOK = true
		if m.Flags&2 != 0 {
			if len(b) < pos+2 {
				p.Truncated = true
				return p
			}
			want := binary.LittleEndian.Uint16(b[pos:])
			got := uint16(crc32.ChecksumIEEE(b[:pos]))
			m.HeaderCRCOK = want == got
			pos += 2
			if !m.HeaderCRCOK {
				p.Bad = "header_crc"
				return p
			}
		}
		m.HdrEnd = off + pos
		r := Inflate(b[pos:], Options{})
		m.Payload = r.Out
		if r.Defect != nil {
			p.Bad = "deflate:" + r.Defect.Kind
			p.Partial = r.Out
			return p
		}
		if !r.Complete {
			p.Truncated = true
			p.Partial = r.Out
			return p
		}
		pos += r.EndByte
		m.DeflateEnd = off + pos
		if len(b) < pos+8 {
			p.Truncated = true
			p.Partial = r.Out
			return p
		}
		m.CRC = binary.LittleEndian.Uint32(b[pos:])
		m.ISize = binary.LittleEndian.Uint32(b[pos+4:])
		m.CRCOK = m.CRC == crc32.ChecksumIEEE(r.Out)
		m.SizeOK = m.ISize == uint32(len(r.Out))
		pos += 8
		m.End = off + pos
		if !m.CRCOK || !m.SizeOK {
			p.Bad = "checksum"
			p.Partial = r.Out
			return p
		}
		p.Members = append(p.Members, m)
		off += pos
	}
}

type ZlibParse struct {
	OK         bool
	Truncated  bool
	Bad        string
	HasDict    bool
	DictID     uint32
	CMF, FLG   byte
	Payload    []byte
	Adler      uint32
	DeflateEnd int
	End        int
}

func ParseZlib(in []byte, dict []byte) *ZlibParse {
	p := &ZlibParse{}
	if len(in) < 2 {
		p.Truncated = true
		return p
	}
	p.CMF, p.FLG = in[0], in[1]
	if p.CMF&0x0f != 8 || p.CMF>>4 > 7 || (uint(p.CMF)<<8|uint(p.FLG))%31 != 0 {
		p.Bad = "header"
		return p
	}
	pos := 2
	if p.FLG&0x20 != 0 {
		p.HasDict = true
		if len(in) < 6 {
			p.Truncated = true
			return p
		}
		p.DictID = binary.BigEndian.Uint32(in[2:])
		pos = 6
		if dict == nil || adler32.Checksum(dict) != p.DictID {
			p.Bad = "dictionary"
			return p
		}
	} else {
		dict = nil
	}
	r := Inflate(in[pos:], Options{Dict: dict})
	p.Payload = r.Out
	if r.Defect != nil {
		p.Bad = "deflate:" + r.Defect.Kind
		return p
	}
	if !r.Complete {
		p.Truncated = true
		return p
	}
	pos += r.EndByte
	p.DeflateEnd = pos
	if len(in) < pos+4 {
		p.Truncated = true
		return p
	}
	p.Adler = binary.BigEndian.Uint32(in[pos:])
	p.End = pos + 4
	if p.Adler != adler32.Checksum(r.Out) {
		p.Bad = "checksum"
		return p
	}
	p.OK = true
	return p
}

// GzipHeaderLen returns the length of the gzip member header at the start of
// b, or -1 if b does not hold a complete header.
func GzipHeaderLen(b []byte) int {
	if len(b) < 10 || b[0] != 0x1f || b[1] != 0x8b || b[2] != 8 {
		return -1
	}
	flg := b[3]
	pos := 10
	if flg&4 != 0 {
		if len(b) < pos+2 {
			return -1
		}
		n := int(binary.LittleEndian.Uint16(b[pos:]))
		pos += 2 + n
		if len(b) < pos {
			return -1
		}
	}
	for _, bit := range []byte{8, 16} {
		if flg&bit != 0 {
			for {
				if pos >= len(b) {
					return -1
				}
				pos++
				if b[pos-1] == 0 {
					break
				}
			}
		}
	}
	if flg&2 != 0 {
		pos += 2
		if len(b) < pos {
			return -1
		}
	}
	return pos
}
