#!/bin/bash
# check.sh <property-id> <quick|thorough>   |   check.sh replay <trace.json>   |   check.sh build
# Rebuilds the simulator against /repo's current working tree (hooks on: -tags verif)
# and runs one check. Exit 0 held / 1 violation / 2 infrastructure trouble.
cd "$(dirname "$0")" || exit 2
export GOFLAGS=-mod=mod GOPROXY=off GOSUMDB=off GOTOOLCHAIN=local
export VERIF_DIR="$PWD"
# VERIF_REPO (optional, for background sweeps on a snapshot only): build against that copy
# of fastgo instead of /repo. Registered checks never set it.
MODFLAG=""
if [ -n "$VERIF_REPO" ]; then
  mkdir -p bin
  sed "s#=> /repo#=> $VERIF_REPO#" sim/go.mod > bin/go.alt.mod
  MODFLAG="-modfile=$PWD/bin/go.alt.mod"
  echo "note: building against $VERIF_REPO (not /repo)"
fi
build() {
  mkdir -p bin
  # second binary: fastgo's portable code paths (what a non-amd64 build compiles)
  # (if only this build fails, e.g. after an edit that was compiled on amd64 only, the checks
  # still run at the amd64 levels and say so)
  rm -f bin/fgsim-portable
  ( cd sim && go build $MODFLAG -tags "verif noasmtest" -o ../bin/fgsim-portable ./cmd/fgsim ) || { rm -f bin/fgsim-portable; echo "note: the portable build (-tags noasmtest) of fastgo does not compile; pseudo level 10 is skipped"; }
  ( cd sim && go build $MODFLAG -tags verif -o ../bin/fgsim ./cmd/fgsim ) || { echo "BUILD FAILED (fastgo or the simulator does not compile)" >&2; exit 2; }
}
case "$1" in
  build) build; exit 0;;
  replay) build; exec ./bin/fgsim replay "$2";;
  racebuild)
    mkdir -p bin
    ( cd sim && go build $MODFLAG -race -tags verif -o ../bin/fgsim-race ./cmd/fgsim ) || { echo "RACE BUILD FAILED" >&2; exit 2; }
    exit 0;;
  C17)
    build
    ( cd sim && go build $MODFLAG -race -tags verif -o ../bin/fgsim-race ./cmd/fgsim ) || { echo "RACE BUILD FAILED" >&2; exit 2; }
    exec ./bin/fgsim check C17 "${2:-quick}";;
  *) build; exec ./bin/fgsim check "$1" "${2:-quick}";;
esac
