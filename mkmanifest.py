#!/usr/bin/env python3
# Generates MANIFEST.json from the table below (kept in one place so it stays valid).
import json
P = {
 "C01": ("exploration", "seeded Writer histories (setting x data x Write/Flush partition) into an accepting simulated sink; output decoded by compress/flate, the reference inflater and fastgo's Reader; canaries around the output/token buffers; every runnable acceleration level", "5 C01"),
 "C02": ("exploration", "seeded valid streams (stdlib/fastgo encoders and a block synthesiser covering every block type and code shape) read through seeded source kinds, delivery and Read-size schedules; equality with compress/flate; cross-level digest comparison", "5 C02"),
 "C03": ("exploration", "seeded malformed inputs (every structural fault kind planted by the synthesiser, blind mutations, truncation at every byte of small streams) on fresh and reused Readers; oracles from a permissive reference inflater (upper bound) and compress/flate (lower bound); cross-level comparison", "5 C03"),
 "C04": ("exploration", "schedule search: each valid or truncated stream read all-at-once and under 8-12 seeded delivery/Read-size schedules (1-byte, short reads, EOF with data, refills aimed inside block headers, bufio 16..1Mi); outputs and final error must be identical", "5 C04"),
 "C05": ("exploration", "valid stream/container + suffix read to io.EOF through each source kind and constructor; the bytes left in the caller's source object must equal the suffix", "5 C05"),
 "C06": ("exploration", "seeded gzip/zlib Writer histories (header field space, levels, partitions, Reset reuse) run by fastgo and by the stdlib in lock-step; each container read by the opposite implementation; trailer values recomputed", "5 C06"),
 "C07": ("fault_enumeration", "for each sampled well-formed container every truncation point and every single-bit flip (plus sampled double flips / byte substitutions) read through seeded schedules; io.EOF only if an accepting reference (compress/gzip|zlib or the reference container parser) agrees", "5 C07"),
 "C08": ("exploration", "seeded gzip member sequences (fastgo/stdlib/synthesised, empty members, trailing data) read in default mode and with Multistream(false)+Reset on a buffered source under seeded delivery; model = written payloads and compress/gzip in the same mode", "5 C08"),
 "C09": ("exploration", "two Writers, same data and Flush positions, two seeded Write partitions (biased to the implementation-independent thresholds); byte-identical output required", "5 C09"),
 "C10": ("exploration", "invariant evaluated during the run at every acknowledged Flush ('crash right after the ack'): the emitted prefix decodes (compress/flate and reference inflater) to all data so far, ends on a block and byte boundary and asks for more; then the whole stream stays valid", "5 C10"),
 "C11": ("exploration", "two simulated tasks (producer Writer, consumer Reader) on a gated pipe under a seeded baton-passing scheduler; at every quiescence after releasing a flush point the consumer must hold all data before it; then the source stalls, fails or sends unrelated bytes", "5 C11"),
 "C12": ("exploration", "seeded earlier life of a Writer (abandoned mid-stream, Flush, Close, failed sink), Reset, later history; bytes and per-call errors compared with a fresh Writer", "5 C12"),
 "C13": ("exploration", "seeded earlier uses of a Reader (partial reads, EOF, error), Reset, next input incl. back-references before its start and zlib dictionaries; results compared with a fresh Reader and with the reference inflater", "5 C13"),
 "C14": ("fault_enumeration", "for each sampled Writer workload the simulated sink fails at call k for every k of the fault-free run (stratified above 64 calls in quick): error returned, sticky, sink untouched afterwards, no panic, canaries, Reset recovers; fault-free run must give a valid stream", "5 C14"),
 "C15": ("fault_enumeration", "for each sampled valid stream/container the simulated source fails after k bytes for every k (stratified above 512 bytes in quick), error alone or with data: exactly that error, after a true prefix, sticky", "5 C15"),
 "C16": ("exploration", "all call sequences over {Write(0|small|70000), Flush, Close, Reset} up to length 4 (5 thorough), the constructor level table and random histories up to 40 ops, each in lock-step with the stdlib Writer as executable reference model", "5 C16"),
 "C17": ("exploration", "deterministic pass: 2..8 independent Writer/Reader tasks switched at every seam call by the seeded scheduler, each compared with its solo run; plus a free-running pass under the race detector (GOMAXPROCS 2/4/16) whose interleaving is not controlled", "5 C17"),
 "C18": ("exploration", "the same recorded Reader run executed in worker processes forced to each runnable acceleration level (0/1/3/4); (bytes, error kind) compared pairwise by the parent; all other checks also run at every level", "5 C18"),
 "C19": ("exploration", "seeded Writer histories with data built around the window edge (repeats at 4095..4097 / 32767..32769, >64 KiB inputs, partitions across buffer slides); maximum match distance from the reference inflater and decode with a window-restricted reference inflater", "5 C19"),
}
NOTE = "trusted base: the reference inflater and container parsers in sim/ref (cross-checked against compress/flate on every stdlib-accepted stream in setup), the Go standard library's flate/gzip/zlib as reference models, the Go toolchain; sampling evidence, not proof; /verif/known_findings.json lists the genuine defects that are recorded rather than repaired"
TECH = "deterministic simulation with fault injection (seeded scheduler/source/sink, replayable traces, reference-model oracles)"
m = {
 "version": 1,
 "setup_cmd": "./setup.sh",
 "hooks": {
  "guard": "verif",
  "enable": "go build -tags verif (check.sh builds sim/cmd/fgsim with replace github.com/intel/fastgo => /repo; a second binary with -tags \"verif noasmtest\" runs fastgo's portable code paths as pseudo level 10)",
  "baseline_off_cmd": "cd /repo && GOFLAGS=-mod=mod GOPROXY=off GOSUMDB=off GOTOOLCHAIN=local go test -vet=off -count=1 -timeout 25m ./...",
  "source_commits": json.load(open('hook_commits.json')),
  "add_only": True,
 },
 "engines": [{"name": "fgsim", "path": "sim/", "serves_properties": sorted(P), "kind_free_text": "single-process deterministic simulator for fastgo: PRNG-driven scenario generation, simulated sink/source/pipe seams, baton-passing task scheduler, explicit JSON traces with delta-debugging minimiser and fresh-process replay, per-level worker processes"}],
 "checks": [],
 "not_applicable": [{"property_id": "C20", "reason": "output size for one Close and no Flush is a pure function of (data, level, window, acceleration level): no schedule, fault, history or interleaving for a simulator to decide (DESIGN section 5, C20)"}],
 "notes": "Every check: ./check.sh <id> <tier> rebuilds sim/cmd/fgsim against /repo's working tree with -tags verif, runs workers at each runnable acceleration level (0/1/3/4 forced through the verif hook, plus the portable build with -tags noasmtest as pseudo level 10), minimises and replays any violation in a fresh process before printing VIOLATION, prints KNOWN-FINDING lines for open entries of known_findings.json, writes evidence/<id>.json. Exit 2 = infrastructure trouble (never a verdict).",
}
for pid in sorted(P):
    cat, text, ref = P[pid]
    m["checks"].append({
     "property_id": pid,
     "quick_cmd": "./check.sh %s quick" % pid,
     "thorough_cmd": "./check.sh %s thorough" % pid,
     "evidence_file": "evidence/%s.json" % pid,
     "replay_cmd_template": "./check.sh replay {path}",
     "engine": "fgsim",
     "level_claimed": {"category": cat, "text": text, "design_ref": "DESIGN.md section " + ref},
     "level_note": NOTE,
     "technique": TECH,
    })
json.dump(m, open('MANIFEST.json', 'w'), indent=1)
print("MANIFEST.json written:", len(m["checks"]), "checks")
