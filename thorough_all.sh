#!/bin/bash
# Runs the thorough tier of every claimed property, one after the other (each uses all cores).
# usage: thorough_all.sh [seed] [property ...]   (set VERIF_REPO to sweep a snapshot of fastgo in the background)
cd "$(dirname "$0")" || exit 2
export VERIF_SEED=${1:-1}
rc=0
shift
PROPS="$*"
[ -z "$PROPS" ] && PROPS=$(python3 -c "import json;print(' '.join(c['property_id'] for c in json.load(open('MANIFEST.json'))['checks']))")
for p in $PROPS; do
  echo "=== $p thorough seed=$VERIF_SEED $(date +%T)"
  ./check.sh $p thorough | grep -v "^minimize" | grep -E -A4 "^VIOLATION|^KNOWN|thorough:|infrastructure|note:" | cut -c1-400
  c=${PIPESTATUS[0]}
  [ "$c" != 0 ] && { echo "=== $p exit $c"; rc=1; }
done
exit $rc
