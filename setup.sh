#!/bin/bash
# Build the simulator from files on disk only (offline) and run its self-checks.
cd "$(dirname "$0")" || exit 2
export GOFLAGS=-mod=mod GOPROXY=off GOSUMDB=off GOTOOLCHAIN=local
set -e
mkdir -p bin evidence failures
( cd sim && go build -tags verif -o ../bin/fgsim ./cmd/fgsim )
( cd sim && go build -tags "verif noasmtest" -o ../bin/fgsim-portable ./cmd/fgsim )
( cd sim && go build -race -tags verif -o ../bin/fgsim-race ./cmd/fgsim )
# reference models against compress/flate and against synthesised ground truth
( cd sim && go test -count=1 ./ref )
# the simulator is deterministic: same seed => same event-log hashes across processes and GOMAXPROCS
./bin/fgsim selfcheck determinism 25
echo "setup ok"
